#!/usr/bin/env python3
"""Re-run the recorded checks of the neutral (behaviour-preserving) seeds against the current machinery; refresh meta.json."""
import glob, json, os, shutil, subprocess, sys, tempfile, time
from concurrent.futures import ThreadPoolExecutor
HERE = os.path.dirname(os.path.dirname(os.path.abspath(__file__)))
sel = sys.argv[1:]
only_alarmed = "--alarmed" in sel
sel = [a for a in sel if not a.startswith("--")]
for mp in sorted(glob.glob(os.path.join(HERE, "seeded-neutral", "*", "meta.json"))):
    d = os.path.dirname(mp)
    if sel and not any(x in d for x in sel):
        continue
    m = json.load(open(mp))
    if only_alarmed and not any(v["rc"] != 0 for v in m["checks"].values()):
        continue
    tmp = tempfile.mkdtemp(prefix="covfie-neutral-lib-")
    try:
        shutil.copytree("/repo/lib", os.path.join(tmp, "lib"))
        subprocess.run("patch -p1 -s -d %s -i %s" % (tmp, os.path.join(d, "patch.diff")), shell=True)

        def one(c):
            env = dict(os.environ, VERIF_REPO=tmp, VERIF_EVIDENCE=os.path.join(tmp, "ev_" + c))
            t0 = time.time()
            r = subprocess.run([os.path.join(HERE, "bin", "vcheck"), c, "--tier", "quick"], capture_output=True, text=True, env=env)
            first = [l.strip()[:300] for l in r.stdout.split("\n") if (l.startswith("  ") and "[" in l and "rule " not in l[:8]) or l.startswith("ANALYSIS-BROKEN")][:2]
            return c, {"rc": r.returncode, "violation": "VIOLATION property=" in r.stdout, "first_reports": first, "wall_s": round(time.time() - t0, 1)}
        with ThreadPoolExecutor(4) as ex:
            for c, res in ex.map(one, list(m["checks"].keys())):
                m["checks"][c] = res
    finally:
        shutil.rmtree(tmp, ignore_errors=True)
    json.dump(m, open(mp, "w"), indent=1)
    bad = {c: v["first_reports"][:1] for c, v in m["checks"].items() if v["rc"] == 1}
    und = {c: v["first_reports"][:1] for c, v in m["checks"].items() if v["rc"] == 2}
    print("%-45s alarms=%s undecided=%s" % (os.path.basename(d), bad or "-", und or "-"))
