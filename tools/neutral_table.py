#!/usr/bin/env python3
"""Print the markdown table of behaviour-preserving seeds (from seeded-neutral/*/meta.json) for DESIGN.md section 8."""
import glob, json, os
HERE = os.path.dirname(os.path.dirname(os.path.abspath(__file__)))
rows = []
for mp in sorted(glob.glob(os.path.join(HERE, "seeded-neutral", "*", "meta.json"))):
    m = json.load(open(mp))
    name = os.path.basename(os.path.dirname(mp)).split("-", 1)[1]
    al = [c for c, v in m["checks"].items() if v["rc"] == 1]
    un = [c for c, v in m["checks"].items() if v["rc"] == 2]
    other = [c for c, v in m["checks"].items() if v["rc"] not in (0, 1, 2)]
    files = ",".join(sorted({os.path.basename(t) for t in m.get("touched", [])}))
    rows.append((m["property"], name, files, len(m["checks"]), ",".join(al) or "-", ",".join(un) or "-", ",".join(other)))
print("| asked for | change | files | checks run | alarms | undecided (exit 2) |")
print("|---|---|---|---|---|---|")
for r in rows:
    print("| %s | %s | %s | %d | %s | %s |%s" % (r[:6] + ((" (did not finish: %s)" % r[6]) if r[6] else "",)))
print("\n%d behaviour-preserving changes, %d check runs; %d runs raised an alarm, %d answered exit 2." % (
    len(rows), sum(r[3] for r in rows), sum(len(r[4].split(",")) for r in rows if r[4] != "-"), sum(len(r[5].split(",")) for r in rows if r[5] != "-")))
