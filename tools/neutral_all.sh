#!/bin/bash
# usage: tools/neutral_all.sh <NN>   - intake every deliver/* of /tmp/wt/n<NN> as neutral changes of property C<NN>
n=$1
for d in /tmp/wt/n$n/deliver/*; do
  /verif/tools/neutral_intake.py C$n $d
done
