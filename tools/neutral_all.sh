#!/bin/bash
# usage: tools/neutral_all.sh <NN> [prefix]   - intake every deliver/* of /tmp/wt/<prefix><NN> (default prefix n) as neutral changes of property C<NN>
n=$1; pre=${2:-n}
for d in /tmp/wt/$pre$n/deliver/*; do
  b=$(basename $d)
  if [ -d /verif/seeded-neutral/C$n-$b ] && ! diff -q $d/patch.diff /verif/seeded-neutral/C$n-$b/patch.diff >/dev/null 2>&1; then mv $d ${d}_r2; d=${d}_r2; fi
  /verif/tools/neutral_intake.py C$n $d
done
