#!/usr/bin/env python3
"""debug helper: tools/dbgir.py <rule module> <make-args as python tuple>  -> prints harness IR text"""
import os, sys, shutil, subprocess
sys.path.insert(0, os.path.join(os.path.dirname(os.path.abspath(__file__)), ".."))
from engine import common, harness, ir
import importlib
mod = importlib.import_module("engine.rules." + sys.argv[1])
fn = getattr(mod, sys.argv[3] if len(sys.argv) > 3 else "make")
h = fn(*eval(sys.argv[2]))
d = common.scratch()
src = os.path.join(d, "x.cc"); ll = os.path.join(d, "x.ll")
open(src, "w").write(harness.INCLUDES + h.code())
extra = os.environ.get("EXTRA", "").split()
ok, err, cmd = ir.clang_ir(src, ll, extra=extra)
print(h.code())
if not ok:
    print(err); sys.exit(1)
txt = open(ll).read()
import re
out = []
on = False
for ln in txt.split("\n"):
    if ln.startswith("define") and "@H_" in ln: on = True
    if on and "llvm.dbg" not in ln: out.append(re.sub(r", !dbg !\d+|, !tbaa !\d+|, !tbaa.struct !\d+", "", ln))
    if ln.startswith("}"): on = False
print("\n".join(out))
