#!/usr/bin/env python3
"""Print the markdown table of seeded changes (from seeded/*/meta.json) for DESIGN.md section 8."""
import glob, json, os
HERE = os.path.dirname(os.path.dirname(os.path.abspath(__file__)))
rows = []
for mp in sorted(glob.glob(os.path.join(HERE, "seeded", "*", "meta.json"))):
    m = json.load(open(mp))
    name = os.path.basename(os.path.dirname(mp))
    own = m["checks"].get(m["property"], {})
    others = [k for k, v in m["checks"].items() if v.get("detected") and k != m["property"]]
    rule = ""
    fr = own.get("first_reports") or []
    if fr:
        import re
        mm = re.search(r"\[([A-Z]\d+[\w.\-]*)\]", fr[0])
        rule = mm.group(1) if mm else ""
    rows.append((m["property"], name.split("-", 1)[1], "yes" if own.get("detected") else ("exit 2" if own.get("rc") == 2 else "NO"), rule, ",".join(others)))
print("| property | seeded change | caught by own check | first rule | also caught by |")
print("|---|---|---|---|---|")
for r in rows:
    print("| %s | %s | %s | %s | %s |" % r)
det = sum(1 for r in rows if r[2] == "yes")
print("\n%d seeded changes; %d reported as violations by their property's own check, %d answered with exit 2 (unrecognised formulation), %d missed." % (
    len(rows), det, sum(1 for r in rows if r[2] == "exit 2"), sum(1 for r in rows if r[2] == "NO")))
