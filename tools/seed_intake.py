#!/usr/bin/env python3
"""Intake of a seeded change produced by an independent sub-agent.

usage: tools/seed_intake.py <property id> <deliver dir> [--checks C02,C13,...]

1. copies patch.diff / demo.cpp / notes.md to /verif/seeded/<pid>-<name>/
2. confirms it in a scratch git worktree of /repo (outside /repo and /verif): with the patch the library
   builds and the 99 tests pass; the demo passes on the clean tree and fails with the patch
3. runs the named checks (default: the property's own check) against a patched scratch copy of /repo/lib
4. writes meta.json; removes every scratch directory
"""
import json, os, re, shutil, subprocess, sys, tempfile, time

HERE = os.path.dirname(os.path.dirname(os.path.abspath(__file__)))


def sh(cmd, **kw):
    return subprocess.run(cmd, shell=True, capture_output=True, text=True, **kw)


def main():
    pid, src = sys.argv[1], sys.argv[2].rstrip("/")
    checks = [pid]
    for i, a in enumerate(sys.argv):
        if a == "--checks":
            checks = sys.argv[i + 1].split(",")
    name = os.path.basename(src)
    dst = os.path.join(HERE, "seeded", "%s-%s" % (pid, name))
    os.makedirs(dst, exist_ok=True)
    for f in ("patch.diff", "demo.cpp", "notes.md"):
        if os.path.exists(os.path.join(src, f)):
            shutil.copy(os.path.join(src, f), os.path.join(dst, f))
    patch = os.path.join(dst, "patch.diff")
    notes = open(os.path.join(dst, "notes.md")).read() if os.path.exists(os.path.join(dst, "notes.md")) else ""
    meta = {"property": pid, "name": name, "source": "independent sub-agent given only the property text and its own worktree", "confirmed": {}, "checks": {}}
    wt = tempfile.mkdtemp(prefix="covfie-seed-wt-")
    os.rmdir(wt)
    sh("git -C /repo worktree add --detach %s HEAD" % wt)
    try:
        flags = "-std=c++20 -O1 -I%s/lib/core -I%s/lib/cpu" % (wt, wt)
        if "-mbmi2" in notes:
            flags += " -mbmi2"
        m = re.search(r"-fsanitize=[\w,]+", notes)
        if m:
            flags += " " + m.group(0) + " -g"
        demo = os.path.join(dst, "demo.cpp")

        def run_demo(tag):
            exe = os.path.join(wt, "demo_" + tag)
            c = sh("g++ %s %s -o %s" % (flags if not tag.endswith("2") else alt_flags, demo, exe))
            if c.returncode != 0:
                return {"compiled": False, "rc": None, "tail": c.stderr[-300:]}
            r = sh(exe, timeout=300)
            return {"compiled": True, "rc": r.returncode, "tail": (r.stdout + r.stderr)[-200:]}

        alt_flags = None
        if " -mbmi2" in flags:
            alt_flags = flags.replace(" -mbmi2", "")
        clean = run_demo("clean")
        a = sh("git -C %s apply %s" % (wt, patch))
        if a.returncode != 0:
            meta["confirmed"] = {"applies": False, "err": a.stderr[-300:]}
        else:
            b = sh("cd %s && cmake -S . -B _b -G Ninja -DCOVFIE_BUILD_TESTS=ON -DCOVFIE_PLATFORM_CPU=ON -DCMAKE_BUILD_TYPE=RelWithDebInfo -DCMAKE_CXX_FLAGS=-Wno-error >/dev/null && cmake --build _b -j16 >/dev/null 2>&1 && ./_b/tests/core/test_core | tail -1 && ./_b/tests/cpu/test_cpu | tail -1" % wt)
            passed = sum(int(x) for x in re.findall(r"PASSED\s+\]\s+(\d+) tests", b.stdout))
            seeded = run_demo("seeded")
            if alt_flags and not (clean.get("compiled") and clean.get("rc") == 0 and (not seeded.get("compiled") or seeded.get("rc") != 0)):
                # the notes mention -mbmi2 only to say it must NOT be used: retry without it
                flags = alt_flags
                seeded = run_demo("seeded2")
                sh("git -C %s apply -R %s" % (wt, patch))
                clean = run_demo("clean2")
                sh("git -C %s apply %s" % (wt, patch))
            meta["confirmed"] = {
                "applies": True, "builds_and_99_tests_pass": b.returncode == 0 and passed == 99, "tests_passed": passed,
                "demo_clean": clean, "demo_seeded": seeded, "demo_flags": flags.replace(wt, "<worktree>"),
                "demo_discriminates": bool(clean.get("compiled") and clean.get("rc") == 0 and (not seeded.get("compiled") or seeded.get("rc") != 0)),
            }
    finally:
        sh("git -C /repo worktree remove --force %s" % wt)
        shutil.rmtree(wt, ignore_errors=True)
    # run checks against a patched copy of lib
    d = tempfile.mkdtemp(prefix="covfie-seed-lib-")
    try:
        shutil.copytree("/repo/lib", os.path.join(d, "lib"))
        p = sh("patch -p1 -s -d %s -i %s" % (d, patch))
        for c in checks:
            env = dict(os.environ, VERIF_REPO=d, VERIF_EVIDENCE=os.path.join(d, "ev"))
            t0 = time.time()
            r = subprocess.run([os.path.join(HERE, "bin", "vcheck"), c, "--tier", "quick"], capture_output=True, text=True, env=env)
            first = [l.strip()[:300] for l in r.stdout.split("\n") if l.startswith("  ") and "[" in l and "rule " not in l[:8]][:3]
            meta["checks"][c] = {"rc": r.returncode, "detected": r.returncode == 1 and ("VIOLATION property=%s" % c) in r.stdout, "first_reports": first, "wall_s": round(time.time() - t0, 1)}
    finally:
        shutil.rmtree(d, ignore_errors=True)
    meta["needs_to_manifest"] = next((l.strip() for l in notes.split("\n") if re.search(r"need|manifest|only", l, re.I)), "")[:400]
    meta["ran"] = "tools/seed_intake.py %s %s --checks %s" % (pid, src, ",".join(checks))
    with open(os.path.join(dst, "meta.json"), "w") as fh:
        json.dump(meta, fh, indent=1)
    print(json.dumps({"seed": os.path.basename(dst), "confirmed": meta["confirmed"].get("builds_and_99_tests_pass"), "demo_discriminates": meta["confirmed"].get("demo_discriminates"),
                      "checks": {k: (v["detected"], v["rc"]) for k, v in meta["checks"].items()}, "first": {k: v["first_reports"][:1] for k, v in meta["checks"].items()}}, indent=1))


if __name__ == "__main__":
    main()
