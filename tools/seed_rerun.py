#!/usr/bin/env python3
"""Re-run the checks recorded for every seeded change against the current machinery and refresh meta.json["checks"]."""
import glob, json, os, shutil, subprocess, sys, tempfile, time
HERE = os.path.dirname(os.path.dirname(os.path.abspath(__file__)))
sel = sys.argv[1:]
for mp in sorted(glob.glob(os.path.join(HERE, "seeded", "*", "meta.json"))):
    d = os.path.dirname(mp)
    if sel and not any(x in d for x in sel):
        continue
    m = json.load(open(mp))
    checks = list(dict.fromkeys([m["property"]] + list(m.get("checks", {}).keys())))
    tmp = tempfile.mkdtemp(prefix="covfie-seed-lib-")
    try:
        shutil.copytree("/repo/lib", os.path.join(tmp, "lib"))
        subprocess.run("patch -p1 -s -d %s -i %s" % (tmp, os.path.join(d, "patch.diff")), shell=True)
        m["checks"] = {}
        for c in checks:
            env = dict(os.environ, VERIF_REPO=tmp, VERIF_EVIDENCE=os.path.join(tmp, "ev"))
            t0 = time.time()
            r = subprocess.run([os.path.join(HERE, "bin", "vcheck"), c, "--tier", "quick"], capture_output=True, text=True, env=env)
            first = [l.strip()[:300] for l in r.stdout.split("\n") if l.startswith("  ") and "[" in l and "rule " not in l[:8]][:2]
            m["checks"][c] = {"rc": r.returncode, "detected": r.returncode == 1 and ("VIOLATION property=%s" % c) in r.stdout, "first_reports": first, "wall_s": round(time.time() - t0, 1)}
    finally:
        shutil.rmtree(tmp, ignore_errors=True)
    json.dump(m, open(mp, "w"), indent=1)
    print(os.path.basename(d), {k: (v["detected"], v["rc"]) for k, v in m["checks"].items()})
