#!/usr/bin/env python3
"""Both-ways test of the checkers (DESIGN section 8).

selftest/mutants/*.patch   each must make the named check(s) report a violation (exit 1)
selftest/neutral/*.patch   behaviour-preserving edits: every named check must stay silent (exit 0)

Patch header lines:  `# expect: C14 C01`  (checks to run)   `# what: ...`
Patches are applied to a scratch copy of /repo/lib outside /repo and /verif; the copy is removed afterwards.
With --build the patch is also applied to a scratch git worktree, built, and the 99 tests are run (mutants must still pass them).
usage: tools/selftest.py [--build] [name-substring ...]
"""
import glob, os, re, shutil, subprocess, sys, tempfile
HERE = os.path.dirname(os.path.dirname(os.path.abspath(__file__)))

def header(path):
    exp, what = [], ""
    for ln in open(path):
        if ln.startswith("# expect-broken:"):
            exp = [c + "!" for c in ln.split(":", 1)[1].split()]      # the check must refuse to pass (exit 2), without claiming a violation
        if ln.startswith("# expect:"):
            exp = ln.split(":", 1)[1].split()
        if ln.startswith("# what:"):
            what = ln.split(":", 1)[1].strip()
    return exp, what

def run_one(path, kind, build):
    exp, what = header(path)
    d = tempfile.mkdtemp(prefix="covfie-selftest-")
    try:
        shutil.copytree("/repo/lib", os.path.join(d, "lib"))
        r = subprocess.run(["patch", "-p1", "-d", d, "-i", path, "--no-backup-if-mismatch", "-s"], capture_output=True, text=True)
        if r.returncode != 0:
            return False, "patch does not apply: " + r.stdout[-200:] + r.stderr[-200:]
        msgs = []
        ok = True
        for c in exp:
            broken_ok = c.endswith("!")
            c = c.rstrip("!")
            env = dict(os.environ, VERIF_REPO=d, VERIF_EVIDENCE=os.path.join(d, "ev"))
            p = subprocess.run([os.path.join(HERE, "bin", "vcheck"), c, "--tier", "quick"], capture_output=True, text=True, env=env)
            viol = "VIOLATION property=%s" % c in p.stdout
            if kind == "mutant" and broken_ok:
                good = p.returncode == 2 and not viol
            elif kind == "mutant":
                good = p.returncode == 1 and viol
            elif broken_ok:
                good = p.returncode in (0, 2) and not viol     # a correct edit may be answered "cannot decide", never with a violation
            else:
                good = p.returncode == 0 and not viol
            first = next((l for l in p.stdout.split("\n") if l.startswith("  ") and "[" in l), "")
            msgs.append("%s rc=%d %s" % (c, p.returncode, first.strip()[:160]))
            ok = ok and good
        if build and ok:
            wt = tempfile.mkdtemp(prefix="covfie-selftest-wt-")
            os.rmdir(wt)
            subprocess.run(["git", "-C", "/repo", "worktree", "add", "--detach", wt, "HEAD"], capture_output=True)
            try:
                subprocess.run(["git", "-C", wt, "apply", path], check=True, capture_output=True)
                b = subprocess.run("cmake -S %s -B %s/_b -G Ninja -DCOVFIE_BUILD_TESTS=On -DCOVFIE_PLATFORM_CPU=On -DCMAKE_BUILD_TYPE=RelWithDebInfo >/dev/null && cmake --build %s/_b -j16 >/dev/null 2>&1 && %s/_b/tests/core/test_core >/dev/null && %s/_b/tests/cpu/test_cpu > /dev/null" % (wt, wt, wt, wt, wt), shell=True)
                msgs.append("build+tests rc=%d" % b.returncode)
                if kind == "mutant" and b.returncode != 0:
                    ok = False
            finally:
                subprocess.run(["git", "-C", "/repo", "worktree", "remove", "--force", wt], capture_output=True)
        return ok, "; ".join(msgs)
    finally:
        shutil.rmtree(d, ignore_errors=True)

def main():
    args = [a for a in sys.argv[1:] if not a.startswith("--")]
    build = "--build" in sys.argv
    bad = 0
    for kind, pat in (("mutant", "selftest/mutants/*.patch"), ("neutral", "selftest/neutral/*.patch")):
        for path in sorted(glob.glob(os.path.join(HERE, pat))):
            if args and not any(a in path for a in args):
                continue
            ok, msg = run_one(path, kind, build)
            print("%s %-7s %-40s %s" % ("PASS" if ok else "FAIL", kind, os.path.basename(path), msg))
            bad += 0 if ok else 1
    return 1 if bad else 0

if __name__ == "__main__":
    sys.exit(main())
