#!/usr/bin/env python3
"""Intake of a BEHAVIOUR-PRESERVING change produced by an independent sub-agent (false-alarm test).

usage: tools/neutral_intake.py <property id> <deliver dir>

1. copies patch.diff / demo.cpp / notes.md to /verif/seeded-neutral/<pid>-<name>/
2. confirms it in a scratch git worktree of /repo: with the patch the library builds and the 99 tests pass; the demo
   passes on the clean tree and with the patch
3. runs every check whose subject the patch touches (by file) against a patched scratch copy of /repo/lib, in parallel
4. writes meta.json: per check the exit code; a VIOLATION on a confirmed neutral change is a false alarm to be fixed
"""
import json, os, re, shutil, subprocess, sys, tempfile, time
from concurrent.futures import ThreadPoolExecutor

HERE = os.path.dirname(os.path.dirname(os.path.abspath(__file__)))

BY_FILE = [
    ("primitive/array.hpp", "C01 C06 C07 C08 C12 C15 C13 C16 C05"),
    ("transformer/strided.hpp", "C01 C05 C14 C15 C16 C17 C06 C07 C08 C12 C13"),
    ("transformer/morton.hpp", "C01 C05 C14 C15 C16 C17 C18 C06 C07 C08 C12 C13"),
    ("transformer/hilbert.hpp", "C01 C05 C14 C15 C16 C17 C18 C06 C07 C08 C12 C13"),
    ("transformer/clamp.hpp", "C10 C02 C06 C07 C08 C13 C16 C17 C15"),
    ("transformer/backup.hpp", "C11 C02 C06 C07 C08 C13 C16 C17 C15"),
    ("affine.hpp", "C09 C02 C05 C06 C07 C08 C13 C16 C17 C15"),
    ("algebra/", "C09 C02 C05 C13 C15"),
    ("transformer/linear.hpp", "C03 C02 C13 C16 C15 C07 C06"),
    ("transformer/nearest_neighbour.hpp", "C04 C02 C13 C16 C15 C07 C06"),
    ("transformer/shuffle.hpp", "C02 C13 C16 C06 C07 C08 C15"),
    ("transformer/covariant_cast.hpp", "C02 C13 C16 C06 C07 C08 C15"),
    ("transformer/dereference.hpp", "C02 C13 C16 C06 C07 C08 C15"),
    ("primitive/constant.hpp", "C02 C13 C16 C06 C07 C08 C15 C17"),
    ("primitive/identity.hpp", "C02 C13 C16 C06 C07 C08 C15"),
    ("utility/binary_io.hpp", "C06 C07 C08 C15"),
    ("core/field.hpp", "C02 C13 C08 C16 C05 C06 C12"),
    ("core/field_view.hpp", "C02 C13 C16 C15"),
    ("utility/nd_map.hpp", "C19 C05 C15"),
    ("utility/numeric.hpp", "C18 C05 C01 C14 C17"),
    ("utility/static_permutation.hpp", "C20 C13"),
    ("parameter_pack.hpp", "C17 C13"),
    ("vector.hpp", "C02 C13 C15"),
    ("array.hpp", "C02 C13 C15 C19"),
    ("utility/nd_size.hpp", "C13 C15 C05"),
]


def sh(cmd, **kw):
    return subprocess.run(cmd, shell=True, capture_output=True, text=True, **kw)


def main():
    pid, src = sys.argv[1], sys.argv[2].rstrip("/")
    name = os.path.basename(src)
    dst = os.path.join(HERE, "seeded-neutral", "%s-%s" % (pid, name))
    os.makedirs(dst, exist_ok=True)
    for f in ("patch.diff", "demo.cpp", "notes.md"):
        if os.path.exists(os.path.join(src, f)):
            shutil.copy(os.path.join(src, f), os.path.join(dst, f))
    patch = os.path.join(dst, "patch.diff")
    touched = re.findall(r"^\+\+\+ b/(\S+)", open(patch).read(), flags=re.M)
    checks = [pid]
    for t in touched:
        for frag, cs in BY_FILE:
            if frag in t:
                checks += cs.split()
    checks = list(dict.fromkeys(checks))
    meta = {"property": pid, "name": name, "kind": "behaviour-preserving", "source": "independent sub-agent given only the property text and its own worktree",
            "touched": touched, "confirmed": {}, "checks": {}}
    wt = tempfile.mkdtemp(prefix="covfie-neutral-wt-")
    os.rmdir(wt)
    sh("git -C /repo worktree add --detach %s HEAD" % wt)
    try:
        flags = "-std=c++20 -O1 -I%s/lib/core -I%s/lib/cpu" % (wt, wt)
        demo = os.path.join(dst, "demo.cpp")

        def run_demo(tag):
            if not os.path.exists(demo):
                return {"compiled": None}
            exe = os.path.join(wt, "demo_" + tag)
            c = sh("g++ %s %s -o %s" % (flags, demo, exe))
            if c.returncode != 0:
                return {"compiled": False, "tail": c.stderr[-300:]}
            try:
                r = sh(exe, timeout=600)
            except subprocess.TimeoutExpired:
                return {"compiled": True, "rc": "timeout"}
            return {"compiled": True, "rc": r.returncode, "tail": (r.stdout + r.stderr)[-160:]}
        clean = run_demo("clean")
        a = sh("git -C %s apply %s" % (wt, patch))
        if a.returncode != 0:
            meta["confirmed"] = {"applies": False, "err": a.stderr[-300:]}
        else:
            b = sh("cd %s && cmake -S . -B _b -G Ninja -DCOVFIE_BUILD_TESTS=ON -DCOVFIE_PLATFORM_CPU=ON -DCMAKE_BUILD_TYPE=RelWithDebInfo -DCMAKE_CXX_FLAGS=-Wno-error >/dev/null && cmake --build _b -j16 >/dev/null 2>&1 && ./_b/tests/core/test_core | tail -1 && ./_b/tests/cpu/test_cpu | tail -1" % wt)
            passed = sum(int(x) for x in re.findall(r"PASSED\s+\]\s+(\d+) tests", b.stdout))
            patched = run_demo("patched")
            meta["confirmed"] = {"applies": True, "builds_and_99_tests_pass": b.returncode == 0 and passed == 99, "tests_passed": passed, "demo_clean": clean, "demo_patched": patched,
                                 "demo_agrees": clean.get("rc") == 0 and patched.get("rc") == 0}
    finally:
        sh("git -C /repo worktree remove --force %s" % wt)
        shutil.rmtree(wt, ignore_errors=True)
    d = tempfile.mkdtemp(prefix="covfie-neutral-lib-")
    try:
        shutil.copytree("/repo/lib", os.path.join(d, "lib"))
        sh("patch -p1 -s -d %s -i %s" % (d, patch))

        def one(c):
            env = dict(os.environ, VERIF_REPO=d, VERIF_EVIDENCE=os.path.join(d, "ev_" + c))
            t0 = time.time()
            r = subprocess.run([os.path.join(HERE, "bin", "vcheck"), c, "--tier", "quick"], capture_output=True, text=True, env=env)
            first = [l.strip()[:300] for l in r.stdout.split("\n") if (l.startswith("  ") and "[" in l and "rule " not in l[:8]) or l.startswith("ANALYSIS-BROKEN")][:2]
            return c, {"rc": r.returncode, "violation": "VIOLATION property=" in r.stdout, "first_reports": first, "wall_s": round(time.time() - t0, 1)}
        with ThreadPoolExecutor(4) as ex:
            for c, res in ex.map(one, checks):
                meta["checks"][c] = res
    finally:
        shutil.rmtree(d, ignore_errors=True)
    meta["ran"] = "tools/neutral_intake.py %s %s" % (pid, src)
    with open(os.path.join(dst, "meta.json"), "w") as fh:
        json.dump(meta, fh, indent=1)
    bad = {c: v["first_reports"][:1] for c, v in meta["checks"].items() if v["rc"] == 1}
    und = [c for c, v in meta["checks"].items() if v["rc"] == 2]
    print("%-45s confirmed=%s demo=%s checks=%d alarms=%s undecided=%s" % (os.path.basename(dst), meta["confirmed"].get("builds_and_99_tests_pass"), meta["confirmed"].get("demo_agrees"), len(checks), bad or "-", und or "-"))


if __name__ == "__main__":
    main()
