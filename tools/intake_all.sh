#!/bin/bash
# usage: tools/intake_all.sh <pid-lower> [extra checks comma separated]   - intake every deliver/* of /tmp/wt/<pid>
p=$1; P=$(echo $p | tr a-z A-Z); extra=$2
for d in /tmp/wt/$p/deliver/*; do
  n=$(basename $d)
  # round-2 deliveries get a suffix if the name already exists
  if [ -d /verif/seeded/$P-$n ] && ! diff -q $d/patch.diff /verif/seeded/$P-$n/patch.diff >/dev/null 2>&1; then mv $d ${d}_r2; d=${d}_r2; fi
  /verif/tools/seed_intake.py $P $d --checks $P${extra:+,$extra}
done 2>&1 | python3 -c "
import sys,json,re
txt=sys.stdin.read()
for blob in re.findall(r'\{\n \"seed\".*?\n\}\n', txt, flags=re.S):
    j=json.loads(blob)
    print(j['seed'], 'confirmed=',j['confirmed'],'demo=',j['demo_discriminates'], j['checks'])
    for k,v in j['first'].items():
        if v: print('    ',k, v[0][:220])
"
