#!/usr/bin/env python3
"""Regenerate /verif/MANIFEST.json from the table below (kept in one place so the
file stays valid).  Run: python3 tools/gen_manifest.py"""
import json
import os

HERE = os.path.dirname(os.path.dirname(os.path.abspath(__file__)))

TRUST = ("g++ 12 as arbiter of 'compiles'; clang 14 front end + LLVM 14 -O2 pipeline produce IR faithful to the source; "
         "the fact extractors and rule tables in /verif/engine (exercised by selftest mutants); nothing is executed")

CLAIMED = {
    "C01": dict(
        level="other", design="5/C01", technique="structural premises from optimised LLVM IR: index maps (polynomial / bit provenance), allocation-size expressions over all extents (opaque numeric helpers, D-ord max), extent routing, exact array view/at/allocation; plus a stated injectivity lemma",
        text="Read-back, non-aliasing and in-bounds access are reduced to: the index map is the published injective map at 64-bit width, every allocation site sizes storage as product / ipow(round_pow2(max extent), N) of ALL extents, "
             "views index with the constructing extents, and the array view addresses exactly element i of the owning buffer. Those premises are decided per instantiation; the lemma connecting them is stated, not machine-checked. Hilbert's walk itself is not decided.",
        note="round_pow2/ipow contracts assumed (C18 not decided statically); Hilbert bijectivity/range not claimed"),
    "C02": dict(
        level="other", design="5/C02", technique="per-layer contracts over an opaque probe backend decided from loop-free LLVM IR as exact value identities (D-route), composition by induction",
        text="Every layer is analysed once over an opaque backend, for N and M chosen independently: which coordinate component reaches which query argument, how many queries, which queried component "
             "reaches which output through which cast. Exact for routing layers (shuffle, dereference, cast, constant, identity, both field_view::at forms, composites); the arithmetic layers' contracts "
             "(C03, C04, C09, C10, C11, C14 rules) are evaluated as well. Composition follows by induction from parametricity; value-level arithmetic is decided in the per-layer properties.",
        note="quick: 7 (N,M) pairs; thorough: all 16 pairs and all permutations for N<=3; induction step itself is an argument, spot-checked on two composite stacks"),
    "C03": dict(
        level="other", design="5/C03", technique="abstract interpretation of loop-free LLVM IR: query count/routing/dependence facts + polynomial normal form of the interpolation expression",
        text="Decides the structure of the interpolant for every (N, M, coordinate type, stored type) instantiation including N != M: 2^N queries at int(c)+{0,1}^N, output dependence, "
             "and equality of the interpolation expression with the N-linear form as a real-ring polynomial identity. It does not bound floating-point rounding error; lattice-point exactness and the range clause are stated consequences.",
        note="quick: 10 instantiations N<=4; thorough: N 1..5 x M 1..4 x float/double coordinate x float/double storage; ring identity not rounding bound"),
    "C04": dict(
        level="other", design="5/C04", technique="value-identity (D-route) reading of loop-free LLVM IR with a whitelist of round-to-nearest idioms",
        text="One backend query whose k-th argument is an integer conversion of a whitelisted round-to-nearest operation applied to exactly coordinate component k, in the coordinate's own precision "
             "(no narrowing before rounding), for float and double coordinates. The within-one-half bound then rests on the libm/IEEE contract of that operation.",
        note="unrecognised rounding idiom = exit 2; default FP environment assumed"),
    "C05": dict(
        level="other", design="5/C05", technique="compile witnesses for all conversions + IR analysis of converting constructors with opaque numeric helpers/nd_map: extents, element count, buffer size, full-box iteration, and the element-wise copy lambda's writer/reader index maps",
        text="Structural: every conversion compiles; the converted field reports the source's extents with correctly sized storage; the copy is driven over the full extent box; in the copy the destination and source positions of tuple t "
             "are the two layers' published index maps and components are copied one to one; the source is never written. Value equality at each coordinate follows from these plus C01/C14/C19 but is not executed. "
             "Hilbert: side length only. lib/cuda: text-level finding only (no CUDA toolchain).",
        note="one open known finding (cuda_device_array copy assignment) is printed as KNOWN-FINDING; Hilbert walk not decided"),
    "C06": dict(
        level="other", design="5/C06", technique="writer/reader grammar extraction from optimised LLVM IR (opaque stream calls in program order, memory snapshots, read atoms) and pairing; array payload: shape-independent abutting-writes rule, then tiling rules for the recognised shapes (per-element loop, bulk write)",
        text="Agreement of the writer's and the reader's item tables for every serialisable layer, the array payload and field::dump/field(istream&): same kinds and byte counts, same constants written and required, every "
             "configuration field written from and reloaded into the same field at the same offset without conversion, delegation in the same place, every written byte defined. Necessary for the round trip and, taken together, close to sufficient; nothing is executed.",
        note="layers over the opaque probe; array<float|double, M<=4>; iostream write/read contract trusted"),
    "C07": dict(
        level="other", design="5/C07", technique="extracted on-disk grammar compared with a frozen format table; transparency of footprint-free layers; width-independent array reader (conversion = one fpext/fptrunc)",
        text="The byte grammar of every layer (magic words, tags, payload item sizes, delegation, footer) is extracted from IR and must equal spec/format_v1.json frozen from the pinned revision: any change, even one applied consistently "
             "to writer and reader, alters bytes on disk. Interpolators serialise as a bare delegation; the array reader accepts both on-disk widths for either in-memory type with exactly one widening/narrowing conversion.",
        note="format table frozen by tools/freeze_format.py, never regenerated by a check; value rounding when narrowing = IEEE fptrunc"),
    "C08": dict(
        level="other", design="5/C08", technique="path-condition analysis of reader IR: every istream::read followed by a state test that guards all later events and uses of the bytes read; header/footer/width comparisons with throwing mismatch edges; no exceptional edge into std::terminate; shape-independent loop read-guard plus loop summary for the array payload",
        text="A structural argument covering every truncation offset and every altered framing word at once, for every layer's reader, the array payload and field(istream&), in NDEBUG and assertion-enabled builds: "
             "no decision, store, allocation or further read happens on bytes whose read was not checked, failure and mismatch edges throw, no assertion is reachable, only read_binary touches the stream.",
        note="relies on istream::read setting failbit on short reads; recovering streams not considered"),
    "C09": dict(
        level="other", design="5/C09", technique="abstract interpretation of loop-free LLVM IR: polynomial normal form over matrix entries (real ring) decided per case of configuration-dependent branches and along every construction route, exact routing for factories",
        text="affine*vector, affine*affine (right factor first), translation/scaling/identity factories and the layer's lookup are compared with the textbook formulas as polynomial identities for N 1..4, float/double. Rounding error not decided.",
        note="real-ring identities; products of >2 transforms by associativity of the verified binary product"),
    "C10": dict(
        level="proof", design="5/C10", technique="abstract interpretation of loop-free LLVM IR over order types (D-ord) + dependence/routing facts, for single and multiple query sites, along every construction route",
        text="Per instantiation clamp<probe<S,N>> the select/compare tree feeding the single backend query is evaluated on every weak ordering of (c,lo,hi) with lo<=hi; "
             "values touched only through comparisons have finitely many order types, so the enumeration is complete for all coordinate values of that instantiation.",
        note="N in 1..3 (quick) / 1..4 (thorough), S in {size_t,unsigned,int,float,double}; NaN excluded; second sentence (memory safety over array storage) follows by composition with C01"),
    "C11": dict(
        level="proof", design="5/C11", technique="abstract interpretation of loop-free LLVM IR over order types (D-ord): gating condition of the backend query and output routing, along every construction route",
        text="Per instantiation backup<probe<S,N,T,M>> the path condition of the single backend query and every output component are evaluated on all 13^N products of weak orderings of (c_i,lo_i,hi_i): "
             "queried iff inside the closed box; outputs routed from backend value or default. Complete for all coordinate values since inputs are touched only by comparisons.",
        note="quick: 11 instantiations N<=3; thorough: N,M in 1..4 x 5 coordinate types; NaN excluded"),
    "C12": dict(
        level="other", design="5/C12", technique="representation-invariant argument: token scan for allocation outside unique_ptr, D-route analysis of the array backend's copy operations (allocation, copied bytes, members, self-assignment ordering, returned reference), trivially-copyable witnesses for wrapper layers, conversion sizing rules",
        text="Histories are covered by an invariant every operation preserves: each owning object exclusively owns a buffer of exactly m_size elements. Decided per operation from IR/AST/witnesses; "
             "since only array::owning_data_t manages memory (everything else is memberwise over it), exact deep copy + guarded self-assignment + correctly sized conversions give independence of values, no leak and no double free under any sequence.",
        note="user-chosen view lifetimes and use of moved-from fields are not decided; unique_ptr contract trusted"),
    "C13": dict(
        level="exploration", design="5/C13", technique="compile witnesses (must-compile and must-fail programs over a generated stack grammar, decided by g++ -fsyntax-only)",
        text="Generated programs: every API operation of every stack in the universe must type-check (explicit instantiation forces all non-template member bodies), conversions between compatible stacks must type-check, "
             "and each stated kind constraint has a must-fail witness that has to be rejected by that constraint. Quick: pairwise layer-adjacency cover; thorough: full depth<=3 closure plus seeded depth 4-5 samples.",
        note="oracle for well-kinded = engine/universe.py grammar; g++ 12 decides; clang cross-check not used for verdicts"),
    "C14": dict(
        level="proof", design="5/C14", technique="abstract interpretation of loop-free LLVM IR: polynomial normal form (row-major), bit provenance (Morton, portable and pdep), dependence fixpoint (Hilbert side length), and an inductive proof of the Hilbert clause in a finite corner domain over the quadrant digits/symmetries read off the loop body, with the level schedule decided in the exponent domain",
        text="Row-major and Morton are decided completely per instantiation: the index expression is canonicalised (mod 2^64 polynomial) resp. traced bit by bit and compared with the published map, "
             "for both Morton implementations, which therefore agree. Hilbert: only that the walk's side length is round_pow2(max extent) and that the position depends on the extents through it alone; "
             "bijectivity/adjacency of the walk are NOT decided (data-dependent loop).",
        note="N in 1..3 (quick) / 1..4 (thorough); coordinate types size_t/int (quick) + unsigned (thorough); x86 pdep semantics as modelled; Hilbert walk correctness not claimed"),
    "C15": dict(
        level="other", design="5/C15", technique="compiler diagnostics over forced instantiations + undef/poison propagation through optimised LLVM IR + debug/release term equality + token rule for assertions + zero-initialised curve buffers + array copy/assign buffer guards",
        text="Decides four static clauses: missing-return/uninitialised diagnostics over the explicitly instantiated stack universe (with and without NDEBUG); no undef/poison (LLVM's residue of provably undefined source paths) "
             "reaching a query, output or guard in any entry harness of the other checks in both builds; reads of queried values in bounds; assertions side-effect free and both builds computing identical queries and outputs. "
             "Heap bounds and overflow for runtime values are NOT decided (they would need execution under a sanitizer).",
        note="clauses on runtime-value UB (signed overflow, fp->int range, heap extents) are outside this technique and stated as not decided"),
    "C16": dict(
        level="proof", design="5/C16", technique="sound effect analysis of optimised LLVM IR (store destinations via points-to, atomics/volatile, globals, callee whitelist) for lookups through shared views and for constructing a view from a const field + token scan for shared-state constructs (a hit not attributed to a write is exit 2)",
        text="Schedule-independent: every store a lookup can perform targets lookup-local memory, only constant globals are read, and the only callees are the backend query and pure functions - for every layer "
             "over the opaque probe and for real array-backed stacks, with the view passed by pointer, in NDEBUG and assertion-enabled builds. Readers of memory nobody writes cannot race; a function of (view, coordinate) is deterministic.",
        note="writers to distinct coordinates: disjointness rests on C01/C14 injectivity; C++ memory model; opaque probe stands for any conforming backend"),
    "C17": dict(
        level="other", design="5/C17", technique="exact value-identity (D-route) reading of loop-free LLVM IR for constructors and accessors; make_parameter_pack_for over stacks with one shared configuration type; repeated over probes mimicking array-like and extent-configured backends",
        text="Each configuration field read back through get_configuration()/get_backend() must be exactly the scalar it was constructed from, for every configurable layer (both construction routes) and for "
             "make_parameter_pack_for at depth 1..10 where all nine layers share one configuration type so a positional swap cannot be masked by types. Accessor/trait types are compile witnesses in C13.",
        note="array backend's configuration handled with ownership (C12); rebuild-equality follows from lookups being functions of (configuration, storage)"),
    "C18": dict(
        level="proof", design="5/C18", technique="abstract interpretation of the two numeric loops in purpose-built domains (power-of-two-below-i; symbolic exponents with a polynomial invariant) over loop-cut LLVM IR, plus allocation-expression rules for the sizing clause",
        text="Per unsigned width 8/16/32/64 the loop of round_pow2 is shown to keep its value in the domain 'power of two whose half is below i' and to exit with the least power of two >= i; ipow's exponent invariant alpha + beta*p = e is shown "
             "inductive as a polynomial identity. Each argument covers every input of the width at once. The sizing consequence is decided at every Morton/Hilbert allocation site. Loops of another shape are analysis-broken, not passed.",
        note="soundness of the two domains' transfer functions is part of the trusted base (stated in engine/rules/c18.py); precondition 1 <= i <= 2^(w-1)"),
    "C19": dict(
        level="other", design="5/C19", technique="shape rule over clang's type-checked syntax tree of every nd_map instantiation (canonical counted loop + exactly-one-call body, recursive or loop-nest formulation) + exact IR facts for tail/cat; induction on N",
        text="Exactly-once coverage is derived by induction from per-instantiation facts: one canonical loop over extent component 0 (from 0, strict bound, +1, nothing modified) whose body makes exactly one forwarding call, and exact tail/cat. "
             "std::function type erasure defeats IR-level analysis, so the decision is on the AST. Formulations outside the two recognised grammars are reported as analysis-broken (exit 2), not passed.",
        note="N=1..5, scalars size_t (+int, unsigned in thorough); std::function contract trusted; rewrites into other algorithms need re-confirmation"),
    "C20": dict(
        level="exploration", design="5/C20", technique="compile-time witness enumeration (static_assert units decided by the type checker)",
        text="Exhaustive enumeration, within the stated bounds, of index sequences; each case is a static_assert whose truth the C++ type checker "
             "decides against a Python oracle. The subject is a type-level program, so type checking is complete evaluation of it.",
        note="g++ 12 template semantics; oracle = Python sorted/Counter; bounds: sort length<=4 (quick) / <=6 (thorough) over {0..4}, permutation pairs length<=3/<=4 over {0..3}, seeded long sequences"),
}

NOT_YET = {
}

NA = {
}


def main():
    props = [json.loads(l) for l in open(os.path.join(HERE, "properties.jsonl"))]
    checks = []
    na = []
    for p in props:
        pid = p["id"]
        if pid in CLAIMED:
            c = CLAIMED[pid]
            checks.append({
                "property_id": pid,
                "quick_cmd": "bin/vcheck %s --tier quick" % pid,
                "thorough_cmd": "bin/vcheck %s --tier thorough" % pid,
                "evidence_file": "/verif/evidence/%s.json" % pid,
                "replay_cmd_template": "bin/vcheck --replay {path}",
                "engine": c.get("engine", "vcheck"),
                "level_claimed": {"category": c["level"], "text": c["text"], "design_ref": "DESIGN.md " + c["design"]},
                "level_note": c["note"] + ". Trusted base: " + TRUST,
                "technique": "static analysis: " + c["technique"],
            })
        elif pid in NA:
            na.append({"property_id": pid, "reason": NA[pid]})
        else:
            na.append({"property_id": pid, "reason": NOT_YET.get(pid, "check not built yet at this commit (planned per DESIGN.md section 5); not claimed until its machinery runs")})
    m = {
        "version": 1,
        "setup_cmd": "make -C /verif/engine -j16",
        "hooks": {
            "guard": "COVFIE_VERIF",
            "enable": "no source hooks: witnesses, probe backends and harnesses live in /verif and include /repo/lib headers; the guard name is reserved",
            "baseline_off_cmd": "cmake --build /repo/_build -j16 && /repo/_build/tests/core/test_core && /repo/_build/tests/cpu/test_cpu",
            "source_commits": [],
            "add_only": True,
        },
        "engines": [
            {"name": "vcheck", "path": "/verif/bin/vcheck", "serves_properties": sorted(CLAIMED),
             "kind_free_text": "driver over three static engines: E1 witness compiler (g++ -fsyntax-only), E2 astfacts (libTooling), E3 irdump + abstract interpreter over optimised LLVM IR"},
        ],
        "checks": checks,
        "not_applicable": na,
        "notes": "All verdicts are computed from /repo's current working tree without executing library code. Exit 2 = analysis broken (never a pass).",
    }
    with open(os.path.join(HERE, "MANIFEST.json"), "w") as fh:
        json.dump(m, fh, indent=1)
    print("claimed:", [c["property_id"] for c in checks])
    print("not claimed:", [n["property_id"] for n in na])


if __name__ == "__main__":
    main()
