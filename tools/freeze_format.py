#!/usr/bin/env python3
"""Write spec/format_v1.json (the frozen on-disk grammar) from /repo's CURRENT tree.
Run once on the pinned revision; checks never call this."""
import json, os, subprocess, sys
sys.path.insert(0, os.path.join(os.path.dirname(os.path.abspath(__file__)), ".."))
from engine.rules import c07, io_array
gs, table = c07.extract("thorough")
rev = subprocess.run(["git", "-C", "/repo", "rev-parse", "HEAD"], capture_output=True, text=True).stdout.strip()
out = {"format": "covfie binary field format v1", "frozen_from_repo_commit": rev,
       "magic_header": "0xC04F1EAB", "magic_footer": "0xC04F1E70", "footer_tag_delta": "0x20000000",
       "grammar": table}
try:
    out["array"] = io_array.extract_format()
except Exception as e:
    out["array"] = None
os.makedirs(os.path.dirname(c07.SPEC), exist_ok=True)
json.dump(out, open(c07.SPEC, "w"), indent=1, sort_keys=True)
print("frozen", len(table), "instantiations at", rev)
