#!/usr/bin/env python3
"""usage: tools/mkmutant.py <mutants|neutral> <name> "<expect checks>" "<what>" (<file rel. to /repo> <old> <new> <occurrence|all>)+
Creates selftest/<kind>/<name>.patch by exact-string replacement (occurrence is 1-based)."""
import os, subprocess, sys, tempfile, shutil
kind, name, expect, what = sys.argv[1:5]
rest = sys.argv[5:]
d = tempfile.mkdtemp(prefix="covfie-mk-")
try:
    for i in range(0, len(rest), 4):
        f, old, new, occ = rest[i:i + 4]
        old = old.encode().decode("unicode_escape"); new = new.encode().decode("unicode_escape")
        for side in ("a", "b"):
            p = os.path.join(d, side, f)
            if not os.path.exists(p):
                os.makedirs(os.path.dirname(p), exist_ok=True)
                shutil.copy(os.path.join("/repo", f), p)
        p = os.path.join(d, "b", f)
        s = open(p).read()
        n = s.count(old)
        if n == 0:
            sys.exit("pattern not found in %s: %r" % (f, old))
        if occ == "all":
            s = s.replace(old, new)
        else:
            k = int(occ)
            if k > n:
                sys.exit("only %d occurrences of %r in %s" % (n, old, f))
            idx = -1
            for _ in range(k):
                idx = s.index(old, idx + 1)
            s = s[:idx] + new + s[idx + len(old):]
        open(p, "w").write(s)
    r = subprocess.run(["diff", "-ruN", "a", "b"], cwd=d, capture_output=True, text=True)
    out = "/verif/selftest/%s/%s.patch" % (kind, name)
    open(out, "w").write("# expect: %s\n# what: %s\n%s" % (expect, what, r.stdout))
    print("wrote", out, "(%d lines)" % len(r.stdout.split("\n")))
finally:
    shutil.rmtree(d)
