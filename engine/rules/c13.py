"""C13  Every well-kinded composition supports the whole field API.

E1 (witness compiler, g++ -fsyntax-only).  For every stack of the universe,
one witness per API operation; plus the ill-kinded catalogue (one must-fail
witness per stated constraint).  A witness that fails to compile names the
library location of the first error: that construct is the violation.
"""
import os
import random
import re

from .. import common, universe as U
from ..common import Report, Witness, AnalysisBroken

INCLUDES = """
#include <sstream>
#include <type_traits>
#include <covfie/core/field.hpp>
#include <covfie/core/field_view.hpp>
#include <covfie/core/parameter_pack.hpp>
#include <covfie/core/utility/backend_traits.hpp>
#include <covfie/core/algebra/affine.hpp>
#include <covfie/core/backend/primitive/array.hpp>
#include <covfie/core/backend/primitive/constant.hpp>
#include <covfie/core/backend/primitive/identity.hpp>
#include <covfie/core/backend/transformer/affine.hpp>
#include <covfie/core/backend/transformer/backup.hpp>
#include <covfie/core/backend/transformer/clamp.hpp>
#include <covfie/core/backend/transformer/covariant_cast.hpp>
#include <covfie/core/backend/transformer/dereference.hpp>
#include <covfie/core/backend/transformer/hilbert.hpp>
#include <covfie/core/backend/transformer/linear.hpp>
#include <covfie/core/backend/transformer/morton.hpp>
#include <covfie/core/backend/transformer/nearest_neighbour.hpp>
#include <covfie/core/backend/transformer/shuffle.hpp>
#include <covfie/core/backend/transformer/strided.hpp>
#include <covfie/cpu/backend/primitive/c_array.hpp>
template <typename B, std::size_t I> using nth_t = typename covfie::utility::nth_backend<B, I>::type;
"""

_counter = [0]


def ns(code, stack):
    _counter[0] += 1
    return "namespace w%d {\nusing B = %s;\n%s\n}\n" % (_counter[0], stack.cxx, code)


def op_witnesses(s):
    """(op id, code) pairs for one stack."""
    d = s.depth
    ops = []
    ops.append(("concept", "static_assert(covfie::concepts::field_backend<B>, \"field_backend\");"))
    ops.append(("names", "static_assert(std::is_same_v<typename B::this_t, B>, \"this_t\");\n"
                         "static_assert(std::is_same_v<typename B::owning_data_t::parent_t, B>, \"owning parent_t\");\n"
                         "static_assert(std::is_same_v<typename B::non_owning_data_t::parent_t, B>, \"view parent_t\");"))
    coord = "typename covfie::field<B>::coordinate_t c{};"
    ops.append(("view+at", "void f() { covfie::field<B> fl; covfie::field_view<B> v(fl); %s auto && r = v.at(c); (void)r; }" % coord))
    if not s.scalar_in:
        vargs = ", ".join("typename B::contravariant_input_t::scalar_t{}" for _ in range(s.N))
        ops.append(("at-variadic", "void f() { covfie::field<B> fl; covfie::field_view<B> v(fl); auto && r = v.at(%s); (void)r; }" % vargs))
    cfgs = ", ".join("typename nth_t<B, %d>::configuration_t{}" % i for i in range(d))
    ops.append(("pack", "void f() { covfie::field<B> fl(covfie::make_parameter_pack(%s)); }" % cfgs))
    if d <= 10:
        ops.append(("pack_for", "void f() { covfie::field<B> fl(covfie::make_parameter_pack_for<covfie::field<B>>(%s)); }" % cfgs))
    ops.append(("pack-self", "void f() { typename B::owning_data_t o; typename B::owning_data_t p(covfie::make_parameter_pack(std::move(o))); }"))
    ops.append(("copy-move", "void f() { covfie::field<B> a; covfie::field<B> b(a); covfie::field<B> c(std::move(a)); b = c; c = std::move(b); }"))
    ops.append(("dump", "void f(std::ostream & os) { covfie::field<B> a; a.dump(os); }"))
    ops.append(("load", "void f(std::istream & is) { covfie::field<B> a(is); }"))
    chain = ["const auto & o0 = fl.backend(); auto c0 = o0.get_configuration(); static_assert(std::is_same_v<decltype(c0), typename nth_t<B, 0>::configuration_t>);"]
    vchain = ["const auto & v0 = v.backend();"]
    for i in range(1, d):
        chain.append("const auto & o%d = o%d.get_backend(); auto c%d = o%d.get_configuration(); "
                     "static_assert(std::is_same_v<decltype(c%d), typename nth_t<B, %d>::configuration_t>); "
                     "static_assert(std::is_same_v<std::decay_t<decltype(o%d)>, typename nth_t<B, %d>::owning_data_t>);" % (i, i - 1, i, i, i, i, i, i))
        vchain.append("const auto & v%d = v%d.get_backend(); static_assert(std::is_same_v<std::decay_t<decltype(v%d)>, typename nth_t<B, %d>::non_owning_data_t>);" % (i, i - 1, i, i))
    ops.append(("accessors", "void f() { covfie::field<B> fl; covfie::field_view<B> v(fl); %s %s }" % (" ".join(chain), " ".join(vchain))))
    ops.append(("depth", "static_assert(covfie::utility::backend_depth<B>::value == %d, \"depth\");" % d))
    ops.append(("trivial-view", "static_assert(std::is_trivially_copyable_v<covfie::field_view<B>>, \"view\");\n"
                                "static_assert(std::is_trivially_copyable_v<typename B::non_owning_data_t>, \"storage\");"))
    if d > 1:
        ops.append(("config+backend", "void f() { typename B::backend_t::owning_data_t b; typename B::owning_data_t o(typename B::configuration_t{}, std::move(b)); }"))
    ops.append(("explicit-inst", "}\ntemplate struct %s;\nnamespace {" % s.cxx))
    # convenience constructors
    top = s.layers[0]
    if top in ("clamp", "backup") and d > 1 and s.layers[1] in ("strided",):
        ops.append(("convenience-ctor", "void f() { typename B::owning_data_t o(typename B::backend_t::configuration_t{}); }"))
    if top in ("linear", "shuffle", "covariant_cast", "dereference", "backup") and d > 1:
        ops.append(("config+args-ctor", "void f() { typename B::backend_t::owning_data_t b; typename B::owning_data_t o(typename B::configuration_t{}, b); }"))
    if top == "strided":
        ops.append(("extent-ctor", "void f() { typename B::owning_data_t o(typename B::configuration_t{}); }"))
    return ops


def conversions(tier):
    """(id, from-stack, to-stack) for C13/C05.a: storage-order pairs and whole-stack conversions."""
    out = []
    Ns = (1, 2, 3) if tier == "quick" else (1, 2, 3, 4)
    Ts = ("float",) if tier == "quick" else ("float", "double")
    for T in Ts:
        for N in Ns:
            a = U.p_array(T, 3 if N != 3 else 2)
            orders = [U.l_strided(a, "std::size_t", N), U.l_morton(a, "std::size_t", N, True), U.l_morton(a, "std::size_t", N, False)]
            if N == 2:
                orders.append(U.l_hilbert(a, "std::size_t"))
            for x in orders:
                for y in orders:
                    out.append(("%s->%s N=%d %s" % (x.layers[0], y.layers[0], N, T), x, y))
    # coordinate scalars other than size_t: the layouts' extents type must not depend on the coordinate scalar
    for S in ("unsigned", "int"):
        for N in ((2, 3) if tier == "quick" else (1, 2, 3, 4)):
            a = U.p_array("float", 3 if N != 3 else 2)
            orders = [U.l_strided(a, S, N), U.l_morton(a, S, N, True), U.l_morton(a, S, N, False)]
            if N == 2:
                orders.append(U.l_hilbert(a, S))
            for x in orders:
                for y in orders:
                    out.append(("%s->%s N=%d float over %s coordinates" % (x.layers[0], y.layers[0], N, S), x, y))
    a = U.p_array("float", 3)
    layouts = [U.l_strided(a, "std::size_t", 3), U.l_morton(a, "std::size_t", 3, True), U.l_morton(a, "std::size_t", 3, False)]
    interps = [lambda b: U.l_nearest(b, "float"), lambda b: U.l_linear(b, "float")]
    for l1 in layouts:
        for l2 in layouts:
            for i1 in interps:
                for i2 in interps:
                    x, y = U.l_affine(i1(l1)), U.l_affine(i2(l2))
                    out.append(("whole-stack %s->%s" % (">".join(x.layers[:3]), ">".join(y.layers[:3])), x, y))
    return out


# ---- ill-kinded catalogue -------------------------------------------------
def catalogue():
    A3 = "covfie::backend::array<covfie::vector::float3>"
    S3 = "covfie::backend::strided<covfie::vector::size3, %s>" % A3
    SI3 = "covfie::backend::strided<covfie::vector::size3, covfie::backend::array<covfie::vector::int3>>"
    big = "covfie::backend::constant<covfie::vector::double4, covfie::vector::double4>"
    for _ in range(5):
        big = "covfie::backend::clamp<%s>" % big
    cat = [
        ("linear: non-floating coordinate", "lib/core/covfie/core/backend/transformer/linear.hpp",
         "covfie::backend::linear<%s, covfie::vector::int3> x;" % S3, "contravariant input must have a floating point"),
        ("linear: non-floating stored values", "lib/core/covfie/core/backend/transformer/linear.hpp",
         "covfie::backend::linear<%s> x;" % SI3, "covariant input must have a floating point"),
        ("linear: coordinate size differs from backend's", "lib/core/covfie/core/backend/transformer/linear.hpp",
         "covfie::backend::linear<%s, covfie::vector::float2> x;" % S3, "same size as the backend contravariant input"),
        ("nearest_neighbour: non-floating coordinate", "lib/core/covfie/core/backend/transformer/nearest_neighbour.hpp",
         "covfie::backend::nearest_neighbour<%s, covfie::vector::int3> x;" % S3, "contravariant input must have a floating point"),
        ("nearest_neighbour: coordinate size differs from backend's", "lib/core/covfie/core/backend/transformer/nearest_neighbour.hpp",
         "covfie::backend::nearest_neighbour<%s, covfie::vector::float2> x;" % S3, "same size as the backend contravariant input"),
        ("hilbert: dimensionality other than two", "lib/core/covfie/core/backend/transformer/hilbert.hpp",
         "covfie::backend::hilbert<covfie::vector::size3, %s> x;" % A3, "exactly two"),
        ("scalar_d of a vector wider than one", "lib/core/covfie/core/vector.hpp",
         "covfie::vector::scalar_d<covfie::vector::float2> x;", "only usable with vectors of size 1"),
        ("field_view: view larger than 256 bytes", "lib/core/covfie/core/field_view.hpp",
         "void f() { covfie::field<%s> fl; covfie::field_view<%s> v(fl); }" % (big, big), "Storage type is too large"),
        ("read_binary of a non-standard-layout type", "lib/core/covfie/core/utility/binary_io.hpp",
         "struct NB { int a; private: int b; }; void f(std::istream & is) { auto x = covfie::utility::read_binary<NB>(is); }", "standard layout"),
        ("affine::translation with too few arguments", "lib/core/covfie/core/algebra/affine.hpp",
         "void f() { auto t = covfie::algebra::affine<3>::translation(1.f, 2.f); }", "exactly as many arguments"),
        ("affine::scaling with too many arguments", "lib/core/covfie/core/algebra/affine.hpp",
         "void f() { auto t = covfie::algebra::affine<2>::scaling(1.f, 2.f, 3.f); }", "exactly as many arguments"),
        ("affine::translation with a non-convertible argument", "lib/core/covfie/core/algebra/affine.hpp",
         "struct Z {}; void f() { auto t = covfie::algebra::affine<1>::translation(Z{}); }", "convertible to transformation"),
        ("affine::scaling with a non-convertible argument", "lib/core/covfie/core/algebra/affine.hpp",
         "struct Z {}; void f() { auto t = covfie::algebra::affine<1>::scaling(Z{}); }", "convertible to transformation"),
        ("array of size zero", "lib/core/covfie/core/array.hpp",
         "covfie::array::array<float, 0> x;", "constraint"),
        ("array variadic constructor with too many values", "lib/core/covfie/core/array.hpp",
         "void f() { covfie::array::array<float, 2> x(1.f, 2.f, 3.f); }", "no matching function"),
        ("field of a type that is not a backend", "lib/core/covfie/core/field.hpp",
         "covfie::field<int> * x;", "constraint"),
        ("field_view lookup with too few coordinates", "lib/core/covfie/core/field_view.hpp",
         "void f() { covfie::field<%s> fl; covfie::field_view<%s> v(fl); auto && r = v.at(1u, 2u); }" % (S3, S3), "no matching function"),
        ("field_view lookup with a non-convertible coordinate", "lib/core/covfie/core/field_view.hpp",
         "struct Z {}; void f() { covfie::field<%s> fl; covfie::field_view<%s> v(fl); auto && r = v.at(Z{}, Z{}, Z{}); }" % (S3, S3), "no matching function"),
        ("algebra::vector with the wrong number of components", "lib/core/covfie/core/algebra/vector.hpp",
         "void f() { covfie::algebra::vector<3, float> v(1.f, 2.f); }", "no matching function"),
        ("backend without read_binary is not a field_backend", "lib/core/covfie/core/concepts.hpp",
         "struct NBk { using this_t = NBk; static constexpr bool is_initial = true; }; static_assert(covfie::concepts::field_backend<NBk>);", "static assertion failed"),
        ("view must be trivially copy constructible", "lib/core/covfie/core/concepts.hpp", TRIV_WITNESS, "static assertion failed"),
    ]
    unfalsifiable = [
        ("identity.hpp: input/output dimensionality equal", "both are derived from the single template argument, no instantiation can differ"),
        ("identity.hpp: input scalar constructible from output scalar", "same type on both sides"),
        ("linear.hpp: covariant output vector is an object type", "array_vector_d always yields an object type"),
    ]
    return cat, unfalsifiable


# a backend that is complete except that its view has a non-trivial copy constructor
TRIV_WITNESS = """
#include <verif/probe.hpp>
struct NT : verif::vprobe<float, 1, float, 1> {
    using base = verif::vprobe<float, 1, float, 1>;
    using this_t = NT;
    struct owning_data_t : base::owning_data_t { using parent_t = NT; using base::owning_data_t::owning_data_t;
        owning_data_t() = default;
        explicit owning_data_t(covfie::parameter_pack<owning_data_t> && p) : base::owning_data_t(p.x.m_cfg) {}
        static owning_data_t read_binary(std::istream & fs) { return owning_data_t(); }
        static void write_binary(std::ostream &, const owning_data_t &) {} };
    struct non_owning_data_t { using parent_t = NT; non_owning_data_t(const owning_data_t &) {} non_owning_data_t(const non_owning_data_t &) {}
        covfie::array::array<float, 1> at(covfie::array::array<float, 1>) const { return {}; } };
};
static_assert(covfie::concepts::field_backend<NT>);
"""


def build_universe(tier, rng):
    if tier == "quick":
        ib = U.int_bases([(1, 2), (2, 3), (3, 1)], coord_types=("std::size_t",), stor=("float",))
        ib += U.int_bases([(3, 3)], coord_types=("int",), stor=("double",))
        rb = U.real_bases([(3, 2), (1, 1)])
        allst = U.grow(ib + rb, 4, rng)
        chosen = U.pairwise_cover(allst, rng)
        # always keep the stacks the benchmarks and examples rely on
        a = U.p_array("float", 3)
        for lay in (U.l_strided(a, "std::size_t", 3), U.l_morton(a, "std::size_t", 3, True), U.l_morton(a, "std::size_t", 3, False), U.l_hilbert(U.p_array("float", 2), "std::size_t")):
            for it in (U.l_nearest(lay, "float"), U.l_linear(lay, "float")):
                chosen.append(U.l_affine(it))
            chosen.append(lay)
        # depth 5 (the bound of the property): stacks whose neighbouring layers all have different configuration types, so a
        # per-depth helper that picks the wrong layer's type cannot type-check by accident
        chosen.append(U.l_backup(U.l_affine(U.l_nearest(U.l_strided(a, "std::size_t", 3), "float"))))
        chosen.append(U.l_clamp(U.l_affine(U.l_linear(U.l_morton(a, "std::size_t", 3, False), "float"))))
        seen = {}
        for s in chosen:
            seen.setdefault(s.key(), s)
        return list(seen.values()), len(allst), False
    ib = U.int_bases([(1, 1), (2, 3), (3, 2), (4, 4), (2, 1)], coord_types=("std::size_t", "unsigned", "int"), stor=("float", "double"))
    rb = U.real_bases([(3, 2), (1, 1), (2, 4)], F=("float", "double"))
    d3 = U.grow(ib + rb, 3, rng)
    # depth 4 and 5: seeded sample on top of the full depth-3 closure
    d4 = [s for s in U.grow(rng.sample(d3, min(len(d3), 120)), 4, rng) if s.depth == 4]
    d5 = [s for s in U.grow(rng.sample(d4, min(len(d4), 40)), 5, rng) if s.depth == 5]
    cap = int(os.environ.get("VERIF_C13_CAP", "3000"))
    full = d3 + rng.sample(d4, min(len(d4), 1200)) + rng.sample(d5, min(len(d5), 500))
    if len(full) > cap:
        base = U.pairwise_cover(full, rng)
        rest = [s for s in full if s.key() not in {b.key() for b in base}]
        full = base + rng.sample(rest, cap - len(base))
    return full, len(d3) + len(d4) + len(d5), False


def check(tier):
    rep = Report("C13", tier, "exploration")
    rep.rule("C13.api", "each API operation of each well-kinded stack compiles (g++ -std=c++20 -fsyntax-only)", floor=300)
    rep.rule("C13.convert", "converting construction between compatible stacks compiles", floor=20)
    rep.rule("C13.reject", "each catalogued ill-kinded program is rejected by the stated constraint", floor=15)
    rng = random.Random(common.seed())
    stacks, usize, _ = build_universe(tier, rng)
    stacks = [s for s in stacks if s.view_bytes_upper() <= 256]      # larger views are rejected by a stated constraint (catalogue)
    ws = []
    for s in stacks:
        for opid, code in op_witnesses(s):
            w = Witness("%s :: %s" % (opid, s.cxx), ns(code, s) if opid != "explicit-inst" else "template struct %s;\n" % s.cxx,
                        meta={"op": opid, "stack": s})
            ws.append(w)
    for cid, x, y in conversions(tier):
        code = "namespace wc%d { using X = %s; using Y = %s; void f() { covfie::field<X> a; covfie::field<Y> b(a); (void)b; } }\n" % (len(ws), x.cxx, y.cxx)
        ws.append(Witness("convert :: " + cid, code, meta={"op": "convert", "cid": cid}))
        if x.cxx != y.cxx:
            code = "namespace wm%d { using X = %s; using Y = %s; void f() { covfie::field<X> a; covfie::field<Y> b(std::move(a)); (void)b; } }\n" % (len(ws), x.cxx, y.cxx)
            ws.append(Witness("convert-move :: " + cid, code, meta={"op": "convert", "cid": "move " + cid}))
    cat, unfals = catalogue()
    for i, (cid, where, code, msg) in enumerate(cat):
        ws.append(Witness("reject :: " + cid, "namespace wr%d {\n%s\n}\n" % (i, code) if "#include" not in code else code,
                          expect="reject", expect_msg=msg, meta={"op": "reject", "where": where, "cid": cid}))
    common.compile_witnesses(ws, INCLUDES, tag="c13")
    adj = set()
    for w in ws:
        op = w.meta["op"]
        if op == "reject":
            if w.ok:
                rep.ok("C13.reject", w.meta["cid"], sample={"ill-kinded": w.meta["cid"], "verdict": "rejected by stated constraint"} if len(rep.samples) < 3 else None)
            else:
                rep.fail("C13.reject", w.meta["cid"], w.meta["where"], w.detail, {"witness": w.code})
        elif op == "convert":
            if w.ok:
                rep.ok("C13.convert", w.meta["cid"])
            else:
                rep.fail("C13.convert", w.meta["cid"], locate(w, "lib/core/covfie/core/field.hpp"), "conversion does not compile: " + w.detail, {"witness": w.code})
        else:
            s = w.meta["stack"]
            inst = "%s(%s)" % (op, ">".join(s.layers)) + " N=%d M=%d %s->%s" % (s.N, s.M, s.S.replace("std::", ""), s.T)
            if w.ok:
                adj |= set(U.adjacency(s))
                rep.ok("C13.api", inst, sample={"stack": s.cxx, "op": op} if len(rep.samples) < 8 and op in ("load", "accessors") else None)
            else:
                rep.fail("C13.api", inst, locate(w, layer_file(s.layers[0])), "%s on %s does not compile: %s" % (op, s.cxx, w.detail), {"witness": w.code})
    # group identical root causes: one violation per (library location, op-kind)
    rep.violations = group(rep.violations)
    rep.extra["stacks"] = len(stacks)
    rep.extra["universe_size_before_selection"] = usize
    rep.extra["layer_adjacencies_covered"] = sorted("%s>%s" % a for a in adj)
    rep.extra["unfalsifiable_constraints"] = [{"constraint": a, "reason": b} for a, b in unfals]
    rep.assumptions = ["g++ 12 is the arbiter of 'compiles' (the project's compiler); -w: warnings are not verdicts",
                       "well-kindedness oracle = engine/universe.py grammar (clamp/backup/shuffle need a vector coordinate; interpolators sit on integer-level stacks; affine on real-level stacks)"]
    return rep.finish(
        "Witness compilation over the stack grammar: %d stacks (selected from %d generated; %s) x up to 17 API operations each, "
        "%d converting constructions, and %d must-fail witnesses for the stated kind constraints. Each witness is an independent program decided by "
        "g++ -fsyntax-only; failing batches are re-decided witness by witness. Explicit instantiation forces every non-template member body to be type-checked." % (
            len(stacks), usize, "pairwise layer-adjacency cover + benchmark stacks" if tier == "quick" else "full depth<=3 closure + seeded depth 4-5 sample",
            sum(1 for w in ws if w.meta["op"] == "convert"), len(cat)),
        "bin/vcheck C13 (g++ -std=c++20 -fsyntax-only on generated witnesses)",
        ["g++ 12 front end", "engine/universe.py kind rules"], exhaustive=(tier == "thorough"))


LAYER_FILE = {
    "array": "lib/core/covfie/core/backend/primitive/array.hpp", "constant": "lib/core/covfie/core/backend/primitive/constant.hpp",
    "identity": "lib/core/covfie/core/backend/primitive/identity.hpp", "morton_bmi2": "lib/core/covfie/core/backend/transformer/morton.hpp",
    "morton_portable": "lib/core/covfie/core/backend/transformer/morton.hpp", "nearest_neighbour": "lib/core/covfie/core/backend/transformer/nearest_neighbour.hpp",
}


def layer_file(name):
    return LAYER_FILE.get(name, "lib/core/covfie/core/backend/transformer/%s.hpp" % name)


def locate(w, fallback):
    for l in getattr(w, "locs", None) or []:
        if l.startswith("lib/"):
            return l
    return fallback


def group(viols):
    """Collapse violations with the same root cause (library location + operation) into one,
    keeping the list of affected instances."""
    out = {}
    for v in viols:
        op = v["instance"].split("(")[0] if v["rule"] == "C13.api" else v["instance"]
        key = (v["rule"], v["where"], op if v["rule"] != "C13.convert" else "convert")
        if key not in out:
            nv = dict(v)
            nv["instances"] = []
            nv["instance"] = "%s @ %s" % (key[2], v["where"])
            out[key] = nv
        out[key]["instances"].append(v["instance"])
    res = []
    for nv in out.values():
        nv["what"] = nv["what"][:600] + " [%d instance(s), e.g. %s]" % (len(nv["instances"]), nv["instances"][0])
        nv["instances"] = nv["instances"][:40]
        res.append(nv)
    return res
