"""C20  Compile-time sort and permutation test are correct for all index sequences.

E1 (witness compiler): the subject is a type-level program, the type checker is
its only evaluator.  Every case is one static_assert on its own line of a
generated TU; a diagnostic on that line (failed assertion or hard error) is a
violation for exactly that case.  Oracle: Python sorted()/Counter.
"""
import itertools
import os
import random
import re
from collections import Counter

from .. import common
from ..common import Report

HDR = "covfie/core/utility/static_permutation.hpp"


def seqs(alpha, maxlen):
    for n in range(maxlen + 1):
        for s in itertools.product(range(alpha), repeat=n):
            yield s


def iseq(s):
    return "std::index_sequence<%s>" % ",".join("%dul" % x for x in s)


def sort_case(s):
    return ("sort<%s>" % ",".join(map(str, s)),
            "static_assert(std::is_same_v<typename covfie::utility::sort_index_sequence<%s>::type, %s>);" % (iseq(s), iseq(sorted(s))))


def perm_case(u, v):
    exp = Counter(u) == Counter(v)
    return ("is_permutation<(%s),(%s)>==%s" % (",".join(map(str, u)), ",".join(map(str, v)), str(exp).lower()),
            "static_assert(covfie::utility::is_permutation<%s, %s>::value == %s);" % (iseq(u), iseq(v), "true" if exp else "false"))


def nontype_case(kind):
    # the predicate's primary template: anything that is not a pair of index sequences is not a permutation
    return ("is_permutation<%s>==false" % kind,
            "static_assert(!covfie::utility::is_permutation<%s>::value);" % kind)


def check(tier):
    rep = Report("C20", tier, "exploration")
    rep.rule("C20.sort", "sort_index_sequence<S>::type is the ascending rearrangement of S (oracle: Python sorted)", floor=700)
    rep.rule("C20.perm", "is_permutation<U,V>::value == (multiset(U) == multiset(V)) (oracle: Counter)", floor=5000)
    if not os.path.exists(os.path.join(common.CORE_INC, HDR)):
        raise common.AnalysisBroken("anchor vanished: " + HDR)
    rng = random.Random(common.seed())
    cases = []
    if tier == "quick":
        sl, pl, pa = 4, 3, 4
    else:
        sl, pl, pa = 6, 4, 4
    for s in seqs(5, sl):
        cases.append(("C20.sort",) + sort_case(s))
    plist = list(seqs(pa, pl))
    for u in plist:
        for v in plist:
            cases.append(("C20.perm",) + perm_case(u, v))
    # seeded longer sequences with large values
    nrand = 200 if tier == "quick" else 2000
    big = [0, 1, 2, 7, 63, 64, 255, 2**16, 2**31 - 1, 2**31, 2**32, 2**63, 2**64 - 2, 2**64 - 1]
    for _ in range(nrand):
        n = rng.randint(5, 12)
        s = tuple(rng.choice(big) if rng.random() < 0.6 else rng.randrange(2**64) for _ in range(n))
        cases.append(("C20.sort",) + sort_case(s))
        t = list(s)
        rng.shuffle(t)
        if rng.random() < 0.5 and t:
            j = rng.randrange(len(t))
            t[j] = rng.choice(big)
        cases.append(("C20.perm",) + perm_case(s, tuple(t)))
    # lengths around every small integer literal of the header (a length threshold at which the algorithm switches
    # strategy), and a band of longer lengths anyway; few distinct values, so equal elements meet at every split point
    src = re.sub(r"//[^\n]*|/\*.*?\*/", " ", open(os.path.join(common.CORE_INC, HDR)).read(), flags=re.S)
    lits = sorted({int(x) for x in re.findall(r"(?<![\w.])(\d{1,3})(?:u|ul|UL|U)?(?![\w.])", src) if 2 <= int(x) <= 64})
    lengths = set(range(13, 21)) | {32, 33}
    for L in lits:
        lengths |= {L - 1, L, L + 1, 2 * L, 2 * L + 1}
    lengths = sorted(n for n in lengths if 2 <= n <= 130)
    for n in lengths:
        for rep_i in range(3 if tier == "quick" else 8):
            alpha = (2, 3, 5)[rep_i % 3]
            s = tuple(rng.randrange(alpha) if rng.random() < 0.9 else rng.choice(big) for _ in range(n))
            cases.append(("C20.sort",) + sort_case(s))
            t = list(s)
            rng.shuffle(t)
            cases.append(("C20.perm",) + perm_case(s, tuple(t)))
            t2 = list(t)
            t2[rng.randrange(n)] = t2[rng.randrange(n)]          # usually changes one multiplicity
            cases.append(("C20.perm",) + perm_case(s, tuple(t2)))
            cases.append(("C20.perm",) + perm_case(s, tuple(t[:-1])))
    cases.append(("C20.perm",) + nontype_case("int, std::index_sequence<>"))
    cases.append(("C20.perm",) + nontype_case("std::index_sequence<0>, void"))

    per = 1500
    shards = [cases[i:i + per] for i in range(0, len(cases), per)]
    d = os.path.join(common.scratch(), "c20")
    os.makedirs(d, exist_ok=True)

    def do(ix):
        i, shard = ix
        p = os.path.join(d, "c20_%d.cc" % i)
        with open(p, "w") as fh:
            fh.write("#include <%s>\n" % HDR)  # line 1
            for _, _, code in shard:
                fh.write(code + "\n")
        ok, err = common.gxx_syntax(p)
        os.unlink(p)
        bad = {}
        if not ok:
            base = os.path.basename(p)
            blocks = common.attribute_errors(err, p)
            for b in blocks:
                for ln in b["refs"]:
                    if 2 <= ln <= len(shard) + 1:
                        bad.setdefault(ln - 2, b["msg"])
            if not bad:
                raise common.AnalysisBroken("g++ failed on %s without an attributable diagnostic: %s" % (base, err[-500:]))
        return bad

    results = common.pmap(do, list(enumerate(shards)))
    nbad = 0
    for shard, bad in zip(shards, results):
        for j, (rid, inst, code) in enumerate(shard):
            if j in bad:
                nbad += 1
                if nbad <= 15:
                    rep.fail(rid, inst, "lib/core/" + HDR, "compile-time evaluation disagrees with the oracle: " + bad[j][:200], {"witness": code})
                else:
                    rep.obligations += 1
                    rep.rules[rid]["instances"] += 1
                    rep.rules[rid]["violations"] += 1
            else:
                rep.ok(rid, inst, sample={"case": inst, "witness": code} if (j % 977 == 0) else None)
    rep.extra["bounds"] = {"sort_alphabet": 5, "sort_maxlen": sl, "perm_alphabet": pa, "perm_maxlen": pl, "seeded_long": nrand, "threshold_literals_in_header": lits, "long_lengths": lengths}
    rep.assumptions = ["g++ 12 -std=c++20 evaluates templates per the standard", "oracle: Python sorted / collections.Counter"]
    return rep.finish(
        "Every sequence of length <= %d over {0..4} is sorted at compile time and compared (is_same) with Python's sorted(); "
        "every ordered pair of sequences of length <= %d over {0..%d} is put through is_permutation and compared with multiset equality; "
        "plus %d seeded long sequences with 64-bit boundary values, and few-valued sequences of the lengths around every small integer literal of the header (strategy thresholds) and of lengths 13..20, 32, 33. One static_assert per case; any diagnostic on its line is a violation. "
        "Nothing is executed: the C++ type checker evaluates the type-level program." % (sl, pl, pa - 1, nrand),
        "g++ -std=c++20 -fsyntax-only <generated static_assert units> (bin/vcheck C20)",
        ["g++ 12 template instantiation", "python sorted/Counter oracle"],
        exhaustive=True)
