"""C05  Changing representation preserves the field.

Decided structurally (value equality at every coordinate is not executed):
  C05.a  every ordered pair of storage orders and the whole-stack conversions compile (lvalue and rvalue source): C13.convert witnesses, re-run here
  C05.b  re-layout writer == reader: in the element-wise copy handed to nd_map, the destination position computed from
         the index tuple t is the destination layer's published index map of t (row-major: polynomial; Morton: bit
         interleave), the source is read at the source layer's index map of the same t, and all M components are copied
         component i -> i.  (Hilbert: only that the walk's side is round_pow2(max extent); its map is a data-dependent loop)
  C05.c  the converted field reports the source's extents, and its storage has the element count the destination
         layout requires of those extents (C01.b form)
  C05.d  the copy is driven by nd_map over the full extent vector of the source (coverage then is C19)
  C05.e  the source is not written: neither the constructor nor the copy stores through the source object, its view or its buffer
  C05.cuda  lib/cuda's device array cannot be compiled here; its defects are a recorded known finding
"""
import random

from .. import common, harness, ir
from ..common import Report, AnalysisBroken, Witness
from ..harness import Harness
from . import c13, c14, relayout


def declare(rep):
    rep.rule("C05.a", "conversions between storage orders and between whole stacks compile (lvalue and rvalue source)", floor=20)
    rep.rule("C05.compile", "conversion harness compiles", floor=8)
    rep.rule("C05.b", "element-wise copy: destination index map and source index map of the same tuple are the layers' published maps; components copied i -> i", floor=6)
    rep.rule("C05.b-hilbert", "Hilbert side of a copy: the walk's side length is round_pow2(max extent)", floor=1)
    rep.rule("C05.c", "converted field reports the source's extents; element count has the form the destination layout requires", floor=8)
    rep.rule("C05.d", "copy is driven by nd_map over the source's full extent vector", floor=8)
    rep.rule("C05.e", "conversion does not write through the source", floor=8)
    rep.rule("C05.f", "whole-stack conversion through the wrapper layers: transform and extents reported by the result are the source's; storage is a fresh buffer", floor=6)
    rep.rule("C05.g", "conversion from an rvalue source of another storage order still re-lays out into a fresh buffer", floor=4)
    rep.rule("C05.cuda", "CUDA device array conversion (not buildable here): recorded finding", floor=1)


def classify_atoms(N):
    def atomize(x):
        if x[0] == 'ld' and x[1] == ('arg', 1) and x[3] == 8 and isinstance(x[2], int) and x[2] % 8 == 0 and x[2] // 8 < N:
            return ('t', x[2] // 8)
        if x[0] == 'ld' and x[3] == 8 and x[1][0] == 'mem' and isinstance(x[2], int) and x[2] % 8 == 0 and x[2] // 8 < N:
            return ('s', x[2] // 8)
        if x[0] == 'ld' and x[1] == ('arg', 0) and x[3] == 8 and x[4] == 'i64' and isinstance(x[2], int) and x[2] % 8 == 0 and x[2] // 8 < N:
            return ('s', x[2] // 8)          # an extent of the source object, as the constructor sees it (after through_closure)
        return None
    return atomize


def index_ok(kind, term, N):
    """is `term` (a function of the tuple t and the extents) the published index map of layout `kind`?"""
    at = classify_atoms(N)
    if kind == "strided":
        p = ir.to_poly(term, 'int', atomize=at, width=64)
        exp = ir.Poly({}, 1 << 64)
        for k in range(N):
            mon = ir.Poly.atom(('t', k), 1 << 64)
            for l in range(k + 1, N):
                mon = mon * ir.Poly.atom(('s', l), 1 << 64)
            exp = exp + mon
        names = {('t', k): "t%d" % k for k in range(N)}
        names.update({('s', k): "s%d" % k for k in range(N)})
        return (p == exp), "index is %s, expected %s" % (p.show(names)[:160], exp.show(names))
    if kind.startswith("morton"):
        tat = {('ld', ('arg', 1), 8 * k, 8, 'i64', 0): k for k in range(N)}
        aw = {a: 64 for a in tat}
        bits = ir.to_bits(term, 64, aw)
        dom = 64 // N
        for pos in range(dom * N):
            i, j = divmod(pos, N)
            want = [a for a, k in tat.items() if k == j][0]
            if bits[pos] != ('in', want, i):
                b = bits[pos]
                if isinstance(b, tuple) and b[0] == 'top' and not any(isinstance(d_[0], tuple) and d_[0] and d_[0][0] in ('poison', 'undef') for d_ in b[1]):
                    return None, "index bit %d is computed by operations the bit-provenance domain does not model (data-dependent selection of masks or early exits)" % pos
                return False, "index bit %d should be bit %d of t[%d], is %s" % (pos, i, j, str(bits[pos])[:80])
        for pos in range(dom * N, 64):
            b = bits[pos]
            if not (b == 0 or c14.outside(b, dom, 64)):
                return False, "index bit %d depends on in-domain coordinate bits" % pos
        return True, ""
    return None, "not decided"


def make_resolver(h):
    """value, in the converting constructor, of what the copy lambda loads through its closure (captured values, captured
    references to the constructor's locals such as the source view)"""
    sc = ir.Sym(h.func)
    closures = [c.n for c in sc.calls if c.name == "_Znwm"]

    # a small closure lives inside the std::function object itself (a local of the constructor handed to nd_map)
    nd = [c for c in sc.calls if (c.name or "").startswith(relayout.NDMAP)]
    inplace = nd[0].args[0][1][1] if len(nd) == 1 and not closures and nd[0].args and nd[0].args[0][0] == 'ptr' and nd[0].args[0][1][0] == 'alloca' else None

    def resolve(t):
        if not isinstance(t, tuple) or t[0] != 'ld':
            return None
        if t[1] == ('arg', 0) and inplace is not None and isinstance(t[2], int):
            e = (nd[0].snap.get(0) or {}).get(t[2])          # the std::function object as it was when nd_map was called
            return e[1] if e and e[0] == t[3] else None
        if t[1][0] != 'mem':
            return None
        inner = t[1][1]
        if inner[0] == 'ld' and inner[1] == ('arg', 0) and inner[2] == 0 and len(closures) == 1:
            base, off = ('ret', closures[0]), 0
        else:
            p = resolve(inner)
            if p is None or p[0] != 'ptr' or not isinstance(p[2], int):
                return None
            base, off = p[1], p[2]
        if base[0] == 'alloca':
            e = sc.mem.get(base[1], {}).get(off + t[2])
            return e[1] if e and e[0] == t[3] else None
        hit = [st for st in sc.stores if st.base == base and st.off == off + t[2] and st.size == t[3] and st.cond == ir.TRUE]
        return hit[-1].val if hit else None
    return resolve, sc


def through_closure(term, resolve, memo=None):
    """replace every load the lambda makes through its closure by the value the constructor put there (when it is a value)"""
    if memo is None:
        memo = {}
    if not isinstance(term, tuple):
        return term
    if term in memo:
        return memo[term]
    r = None
    if term[0] == 'ld' and term[1][0] == 'mem':
        v = resolve(term)
        if isinstance(v, tuple) and v[0] != 'ptr':
            r = v
    if r is None:
        r = tuple(through_closure(x, resolve, memo) if isinstance(x, tuple) else x for x in term)
    memo[term] = r
    return r


def check_lambda(rep, h):
    m = h.meta
    inst = "%s->%s N=%d %s^%d" % (m["src"], m["dst"], m["N"], m["T"], m["M"])
    file = relayout.FILES[m["dst"].split("_")[0]]
    lam = relayout.find_lambda(h)
    if lam is None:
        raise AnalysisBroken("C05 %s: cannot find the element-wise copy (std::function invoker of make_%s_copy's lambda)" % (inst, m["dst"].split("_")[0]))
    f = ir.Func(lam)
    N, M, sz = m["N"], m["M"], 4 if m["T"] == "float" else 8
    hil = "hilbert" in (m["src"], m["dst"])
    if hil:
        pre = ir.Sym(f, prefix_only=True)
        rc = [c for c in pre.calls if (c.name or "").startswith(relayout.RP2)]
        if not rc:
            # the side may be computed once by the constructor and captured by value: the walk then starts from a field of
            # the closure object, and the constructor must have stored round_pow2(max extent) into that field
            lc = ir.Sym(f, cut_loops=True)
            sc = ir.Sym(h.func)
            closures = [c.n for c in sc.calls if c.name == "_Znwm"]

            def resolve(t):
                """value, in the constructor, of what the copy loads through its closure (captured values, captured references to locals)"""
                if t[0] != 'ld' or t[1][0] != 'mem':
                    return None
                inner = t[1][1]
                if inner[0] == 'ld' and inner[1] == ('arg', 0) and inner[2] == 0 and len(closures) == 1:
                    base, off = ('ret', closures[0]), 0
                else:
                    p = resolve(inner)
                    if p is None or p[0] != 'ptr' or not isinstance(p[2], int):
                        return None
                    base, off = p[1], p[2]
                if base[0] == 'alloca':
                    e = sc.mem.get(base[1], {}).get(off + t[2])
                    return e[1] if e and e[0] == t[3] else None
                hit = [st for st in sc.stores if st.base == base and st.off == off + t[2] and st.size == t[3] and st.cond == ir.TRUE]
                return hit[-1].val if hit else None
            sides = []
            other = []
            for i in lc.iv.values():
                v = resolve(i["init"]) if i["init"][0] == 'ld' and i["init"][1][0] == 'mem' else None
                if isinstance(v, tuple) and v[0] == 'call' and (v[1] or "").startswith(relayout.RP2):
                    sides.append(v)
                elif isinstance(v, tuple) and v[0] not in ('ptr',) and any(a[0] == 'ld' and a[1] == ('arg', 0) for a in ir.atoms(v)):
                    other.append(v)
            if not sides and len(set(other)) == 1:
                # a side computed by the constructor without round_pow2 (a bit trick): its value decides
                ext = [relayout.src_size_atom(k) for k in range(m["N"])]
                ok_, why_ = relayout.count_form(other[0], "hilbert", m["N"], ext, power=1)
                if ok_:
                    rep.ok("C05.b-hilbert", inst)
                elif ok_ is None:
                    rep.undecided("C05.b-hilbert %s: %s" % (inst, why_))
                else:
                    rep.fail("C05.b-hilbert", inst, file, "the side of the Hilbert walk used by the copy: " + why_)
                return
            if len(set(sides)) != 1:
                rep.undecided("C05.b-hilbert %s: the copy's Hilbert side comes neither from a round_pow2 call in the copy nor from a value the constructor computed with round_pow2 and handed to the copy through its closure; not decided" % inst)
                return
            rc = [c for c in sc.calls if c.n == sides[0][2]]
        good = True
        for c in rc:
            cmpops = set()
            ir.walk(c.args[0], lambda x: cmpops.update([x[2], x[3]]) if x[0] == 'cmp' else None)
            ats = sorted({a for a in cmpops if a[0] == 'ld'}, key=repr)
            ok, r = relayout.is_max_of(c.args[0], ats) if len(ats) == 2 else (False, None)
            if not ok:
                rep.fail("C05.b-hilbert", inst, ir.where(c.inst), "round_pow2 in the copy is applied to %s, not to the larger of the two extents" % ir.show(c.args[0])[:100])
                good = False
        if good:
            rep.ok("C05.b-hilbert", inst)
        return None
    else:
        s = ir.Sym(f)
    if s.unknown:
        raise AnalysisBroken("C05 %s: unmodelled instruction %s in the copy" % (inst, s.unknown[0]["op"]))
    # the copy: stores of values read from the source (scalar by scalar, or the whole element as one block); other stores are the
    # lambda's own bookkeeping (a running counter captured by reference) and must not touch the buffers
    comp = [st for st in s.stores if isinstance(st.val, tuple) and st.val[0] in ('ld', 'blk')]
    other = [st for st in s.stores if st not in comp]
    if not comp:
        rep.fail("C05.b", inst, file, "the copy stores nothing that was read from the source")
        return
    dsts, srcs = set(), set()
    why = None
    dst_base = src_base = None
    covered = 0
    for st in sorted(comp, key=lambda x: relayout_const(x.off)):
        c, terms = split(st.off)
        v = st.val
        srcp = v if v[0] == 'ld' else (('ld', v[1][1], v[1][2], st.size) if v[1][0] == 'ptr' else None)
        if srcp is None:
            rep.undecided("C05.b %s: a block copy from %s; not decided" % (inst, ir.show(v)[:60]))
            return
        sc, sterms = split(srcp[2])
        nbytes = st.size if isinstance(st.size, int) else None
        if c != covered or sc != covered or nbytes is None or nbytes % sz or srcp[3] != nbytes:
            why = "bytes %s.. of the source element are copied to bytes %s.. of the destination element (%s bytes); expected component i -> component i" % (sc, c, nbytes)
            break
        if len(terms) != 1 or len(sterms) != 1 or terms[0][0] != M * sz or sterms[0][0] != M * sz:
            why = "element stride is not sizeof(vector) = %d on both sides" % (M * sz)
            break
        dsts.add(terms[0][1])
        srcs.add(sterms[0][1])
        dst_base = st.base
        src_base = srcp[1]
        if st.base == srcp[1]:
            why = "source and destination buffers are the same object"
        covered += nbytes
    if why is None and covered != M * sz:
        why = "the copy transfers %d bytes per index tuple, an element has %d" % (covered, M * sz)
    if why is None and any(st.base == dst_base for st in other):
        why = "the destination buffer is also written with something that was not read from the source (%s)" % ir.show(other[0].val)[:60]
    if why is None and any(st.base == src_base for st in other):
        why = "the copy writes into the source's storage"
    if why is None and other:
        state = {st.base for st in other}
        if any(a[0] == 'ld' and (a[1] in state or ('mem', a) in state) for d_ in dsts | srcs for a in ir.atoms(('x', d_))):
            rep.undecided("C05.b %s: the position of the copy is taken from state the copy itself updates (a running counter); that it equals the layer's index map depends on the order in which nd_map visits the tuples - not decided" % inst)
            return
    if why is None and (len(dsts) != 1 or len(srcs) != 1):
        # the position may be computed once per component: the computations must be the same map, which structural
        # equality decides only when the optimiser merged them; otherwise each one is judged against the layer's map
        verdicts = [index_ok(m["dst"], d_, N) for d_ in dsts] + [index_ok(m["src"], s_, N) for s_ in srcs]
        if all(v[0] for v in verdicts):
            dsts, srcs = {next(iter(dsts))}, {next(iter(srcs))}
        elif any(v[0] is False for v in verdicts):
            why = "components of one element are copied between different positions (%s)" % next(v[1] for v in verdicts if v[0] is False)[:120]
        else:
            rep.undecided("C05.b %s: the position is computed separately per component in a form that cannot be compared (%s); not decided" % (inst, next(v[1] for v in verdicts if not v[0])[:120]))
            return
    if why:
        rep.fail("C05.b", inst, file, why)
        return
    if not hil:
        d, s_ = next(iter(dsts)), next(iter(srcs))
        okd, whyd = index_ok(m["dst"], d, N)
        oks, whys = index_ok(m["src"], s_, N)
        if okd is False or oks is False:
            # values the lambda reads from objects the constructor built (a view that caches its strides, say) are taken from there
            resolve, _sc = make_resolver(h)
            if okd is False:
                okd2, whyd2 = index_ok(m["dst"], through_closure(d, resolve), N)
                if okd2:
                    okd, whyd = okd2, whyd2
            if oks is False:
                oks2, whys2 = index_ok(m["src"], through_closure(s_, resolve), N)
                if oks2:
                    oks, whys = oks2, whys2
        if okd is None or (okd and oks is None):
            rep.undecided("C05.b %s: %s; cannot decide - re-confirm by reading" % (inst, whyd if okd is None else whys))
        elif not okd:
            rep.fail("C05.b", inst, file, "destination position of the copy is not the %s layer's index map: %s" % (m["dst"], whyd))
        elif not oks:
            rep.fail("C05.b", inst, relayout.FILES[m["src"].split("_")[0]], "source position of the copy is not the %s layer's index map: %s" % (m["src"], whys))
        else:
            rep.ok("C05.b", inst, sample={"conversion": inst, "destination_index": ir.show(d)[:120]} if len(rep.samples) < 4 else None)
    return dst_base


def split(off):
    from .io_array import dyn_parts
    return dyn_parts(off)


def relayout_const(off):
    c, _ = split(off)
    return c or 0


def run_conversions(rep, tier, hs=None):
    hs = hs or relayout.build(tier)
    for h in hs:
        m = h.meta
        if m["src"] == m["dst"]:
            continue
        inst = "%s->%s N=%d %s^%d" % (m["src"], m["dst"], m["N"], m["T"], m["M"])
        file = relayout.FILES[m["dst"].split("_")[0]]
        if h.error:
            loc, msg = harness.first_error(h)
            rep.fail("C05.compile", inst, loc, "conversion does not compile: " + msg)
            continue
        rep.ok("C05.compile", inst)
        s = ir.Sym(h.func)
        N = m["N"]
        sizes = [relayout.src_size_atom(k) for k in range(N)]
        outs = {k: ir.ungate(v) for k, v in s.outputs(h.out_index).items()}
        # C05.c
        why = None
        for k in range(N):
            if outs.get(8 * (1 + k)) != sizes[k]:
                why = "extent %d of the converted field is %s, not the source's extent %d" % (k, ir.show(outs.get(8 * (1 + k)))[:80] if outs.get(8 * (1 + k)) else "unset", k)
        if why is None:
            ok, why2 = relayout.count_form(outs.get(0, ('undef',)), m["dst"].split("_")[0], N, sizes)
            if ok is None:
                rep.undecided("C05.c %s: storage %s" % (inst, why2))
                continue
            if not ok:
                why = "storage " + why2
        if why is None:
            news = [c for c in s.calls if c.name == "_Znam"]
            if len(news) != 1:
                why = "expected exactly one buffer allocation, found %d" % len(news)
            else:
                a = news[0].args[0]
                vs = m["M"] * (4 if m["T"] == "float" else 8)
                from .c12 import count_of
                cnt = count_of(a, vs)          # the whole byte count must be (element count) * sizeof(vector)
                stride = ('ci', vs, 64)
                if cnt is None or stride != ('ci', vs, 64):
                    why = "buffer size %s is not (element count) x sizeof(vector)=%d" % (ir.show(a)[:100], vs)
                else:
                    ok, why2 = relayout.count_form(cnt, m["dst"].split("_")[0], N, sizes)
                    if ok is None:
                        rep.undecided("C05.c %s: allocated buffer: %s" % (inst, why2))
                        continue
                    if not ok:
                        why = "allocated buffer: " + why2
        if why:
            rep.fail("C05.c", inst, file, why)
        else:
            rep.ok("C05.c", inst)
        # C15.pad (declared by C15 only): a Morton/Hilbert buffer has more cells than the copy writes; the padding cells
        # are read by dump() and by copies, so the whole allocation must be zero-initialised (make_unique<T[]> does it)
        if "C15.pad" in rep.rules:
            news = [c for c in s.calls if c.name == "_Znam"]
            if len(news) == 1:
                zero = [st for st in s.stores if st.base == ('ret', news[0].n) and st.off == 0 and isinstance(st.val, tuple) and st.val[0] == 'memset'
                        and st.val[1] == ('ci', 0, 8) and st.size == news[0].args[0] and st.cond == news[0].cond]
                other = [st for st in s.stores if st.base == ('ret', news[0].n) and st not in zero]
                if zero or m["dst"].split("_")[0] == "strided":
                    rep.ok("C15.pad", inst)
                elif other:
                    rep.undecided("C15.pad %s: the buffer is initialised in a form that is not a whole-buffer zero fill (%s); not decided" % (inst, ir.show(other[0].val)[:60]))
                else:
                    rep.fail("C15.pad", inst, file, "the %s buffer (%s cells) is not zero-initialised as a whole: the copy writes the in-range cells only, so the padding cells stay uninitialised and are read when the field is dumped or copied"
                             % (m["dst"], "round_pow2(max extent)^N"))
        # C05.d
        nd = [c for c in s.calls if (c.name or "").startswith(relayout.NDMAP)]
        if len(nd) != 1:
            rep.fail("C05.d", inst, file, "the copy is not driven by exactly one nd_map call (%d found)" % len(nd))
        else:
            c = nd[0]
            rest = c.args[1:]
            if len(rest) == N and all(a[0] != 'ptr' for a in rest):
                box = list(rest)
            elif len(rest) == 1 and rest[0][0] == 'ptr' and rest[0][1] == ('arg', 0) and isinstance(rest[0][2], int):
                box = [('ld', ('arg', 0), rest[0][2] + 8 * k, 8, 'i64', 0) for k in range(N)]
            elif len(rest) == 1 and rest[0][0] == 'ptr':
                snap = c.snap.get(1, {})
                box = []
                for k in range(N):
                    e = snap.get(rest[0][2] + 8 * k) if isinstance(rest[0][2], int) else None
                    if e is None:
                        for k_, (n_, v_) in snap.items():
                            if isinstance(k_, tuple) and k_[0] == 'memcpy' and v_[0] == 'ldblk' and isinstance(v_[2], int):
                                e = (8, ('ld', v_[1], v_[2] + rest[0][2] + 8 * k - k_[1], 8, 'i64', 0))
                    box.append(e[1] if e else None)
            else:
                box = list(rest)
            if box == sizes:
                rep.ok("C05.d", inst)
            else:
                rep.fail("C05.d", inst, ir.where(c.inst), "nd_map iterates over %s, not over the source's extent vector" % [ir.show(b)[:40] for b in box])
        # C05.e
        bad = [st for st in s.stores if st.base == ('arg', 0) or (st.base[0] == 'mem' and any(a[0] == 'ld' and a[1] == ('arg', 0) for a in ir.atoms(('x', st.base[1]))))]
        if bad:
            rep.fail("C05.e", inst, ir.where(bad[0].inst), "the converting constructor writes through the source object")
        else:
            rep.ok("C05.e", inst)
        check_lambda(rep, h)
    return hs


# ---- whole-stack conversions through the wrapper layers' pass-through constructors ---------------------------
def h_stack(i1, i2, l1, l2, N=3, T="float", M=3):
    lay = {"strided": "strided<verif::vd<std::size_t, %d>, array<verif::vd<%s, %d>>>" % (N, T, M),
           "morton": "morton<verif::vd<std::size_t, %d>, array<verif::vd<%s, %d>>, false>" % (N, T, M)}
    X = "affine<%s<%s>>" % (i1, lay[l1])
    Y = "affine<%s<%s>>" % (i2, lay[l2])
    reads = []
    k = 0
    for i in range(N):
        for j in range(N + 1):
            reads.append("out[%d] = y.get_configuration()(%d, %d); out[%d] = x.get_configuration()(%d, %d);" % (2 * k, i, j, 2 * k + 1, i, j))
            k += 1
    for d in range(N):
        reads.append("out[%d] = static_cast<float>(y.get_backend().get_backend().get_configuration()[%d]); out[%d] = static_cast<float>(x.get_backend().get_backend().get_configuration()[%d]);" % (2 * k, d, 2 * k + 1, d))
        k += 1
    body = """
  using X = %s;
  using Y = %s;
  const X::owning_data_t & x = *static_cast<const X::owning_data_t *>(a0);
  Y::owning_data_t y(x);
  %s
  return reinterpret_cast<std::size_t>(y.get_backend().get_backend().get_backend().m_ptr.get()) == reinterpret_cast<std::size_t>(x.get_backend().get_backend().get_backend().m_ptr.get());
""" % (X, Y, "\n  ".join(reads))
    return Harness("stack_%s_%s_to_%s_%s" % (i1[:2], l1, i2[:2], l2), [("const void *", 'src')], body, out=("float", 2 * k), ret="bool",
                   meta={"i1": i1, "i2": i2, "l1": l1, "l2": l2, "N": N, "pairs": k})


def run_rvalue(rep, tier):
    """conversion from an rvalue source between different storage orders must still re-lay the data out"""
    kinds = [("strided", "morton_portable"), ("morton_portable", "strided"), ("hilbert", "strided"), ("strided", "hilbert")]
    hs = [relayout.make_rvalue(s_, d_, 2, "float", 3) for s_, d_ in kinds] + [relayout.make_rvalue("morton_portable", "strided", 3, "double", 2)]
    harness.build(hs, "c05rv", includes=relayout.includes([2, 3]), per_tu=2)
    for h in hs:
        m = h.meta
        inst = "%s&& -> %s N=%d" % (m["src"], m["dst"], m["N"])
        file = relayout.FILES[m["dst"].split("_")[0]]
        if h.error:
            loc, msg = harness.first_error(h)
            rep.fail("C05.g", inst, loc, "conversion from an rvalue does not compile: " + msg)
            continue
        s = ir.Sym(h.func)
        outs = {k: ir.ungate(v) for k, v in s.outputs(h.out_index).items()}
        nd = [c for c in s.calls if (c.name or "").startswith(relayout.NDMAP)]
        news = [c for c in s.calls if c.name == "_Znam"]
        ptr = outs.get(8)
        fresh = ptr is not None and from_new(ptr, {c.n for c in news})
        if len(nd) != 1 or not news or not fresh:
            rep.fail("C05.g", inst, file, "converting from an rvalue %s field does not re-lay the data out into a fresh buffer (%d nd_map calls, %d allocations, result buffer %s): the %s layer would read the other layer's element order" % (
                m["src"], len(nd), len(news), ir.show(ptr)[:60] if ptr else "unset", m["dst"]))
        else:
            rep.ok("C05.g", inst)
    return hs


def from_new(t, news):
    found = []
    ir.walk(('x', t), lambda x: found.append(x) if x[0] == 'ret' and len(x) == 2 and x[1] in news else None)
    return bool(found)


def run_stacks(rep, tier):
    inc = relayout.includes([3])
    hs = []
    for i1 in ("nearest_neighbour", "linear"):
        for i2 in ("nearest_neighbour", "linear"):
            for l1, l2 in (("strided", "strided"), ("strided", "morton"), ("morton", "strided")):
                if i1 == i2 and l1 == l2:
                    continue
                hs.append(h_stack(i1, i2, l1, l2))
    harness.build(hs, "c05stack", includes=inc, per_tu=2)
    for h in hs:
        m = h.meta
        inst = "affine<%s<%s>> -> affine<%s<%s>>" % (m["i1"], m["l1"], m["i2"], m["l2"])
        file = "lib/core/covfie/core/backend/transformer/affine.hpp"
        if h.error:
            loc, msg = harness.first_error(h)
            rep.fail("C05.f", inst, loc, "whole-stack conversion does not compile: " + msg)
            continue
        s = ir.Sym(h.func)
        outs = {k: ir.ungate(v) for k, v in s.outputs(h.out_index).items()}
        why = None
        for k in range(m["pairs"]):
            a, b = outs.get(8 * k), outs.get(8 * k + 4)
            if a is None or b is None or a != b or not any(x[0] == 'ld' and x[1] == ('arg', 0) for x in ir.atoms(a)):
                what = "transform entry %d" % k if k < m["N"] * (m["N"] + 1) else "extent %d" % (k - m["N"] * (m["N"] + 1))
                why = "%s of the converted stack is %s, the source reports %s" % (what, ir.show(a)[:60] if a else "unset", ir.show(b)[:60] if b else "unset")
                break
        if why is None:
            r = s.retval()
            news = [c for c in s.calls if c.name == "_Znam"]
            if not news:
                why = "the converted stack does not allocate its own storage (it aliases or drops the source's buffer)"
            elif r is not None and ir.ungate(r) not in (ir.FALSE, ('ci', 0, 1), ('ci', 0, 8)) and not (ir.ungate(r)[0] == 'cmp' and any(from_new(a, {c.n for c in news}) for a in (ir.ungate(r)[2], ir.ungate(r)[3]))):
                why = "the converted stack's buffer may be the source's buffer (%s)" % ir.show(r)[:80]
        if why:
            rep.fail("C05.f", inst, file, why)
        else:
            rep.ok("C05.f", inst)
    return hs


def subterms(t):
    out = []
    ir.walk(t, lambda x: out.append(x))
    return out


def cuda_scan(rep):
    """lib/cuda cannot be compiled here (no CUDA headers).  The device array's hand-written copy assignment is read
    as text: a function returning owning_data_t& whose body contains no return statement is reported (G-RET)."""
    import os
    import re
    from .c16 import strip_comments
    p = os.path.join(common.LIB, "cuda", "covfie", "cuda", "backend", "primitive", "cuda_device_array.hpp")
    rel = "lib/cuda/covfie/cuda/backend/primitive/cuda_device_array.hpp"
    if not os.path.exists(p):
        raise AnalysisBroken("anchor vanished: " + rel)
    src = strip_comments(open(p, errors="replace").read())
    found = 0
    for m in re.finditer(r"owning_data_t\s*&\s*operator=\s*\(\s*const\s+owning_data_t\s*&[^)]*\)\s*\{", src):
        i = m.end()
        depth = 1
        while i < len(src) and depth:
            depth += {"{": 1, "}": -1}.get(src[i], 0)
            i += 1
        body = src[m.end():i - 1]
        found += 1
        ln = src.count("\n", 0, m.start()) + 1
        if not re.search(r"\breturn\b", body):
            rep.fail("C05.cuda", "cuda_device_array copy assignment", "%s:%d" % (rel, ln),
                     "hand-written copy assignment returns owning_data_t& but has no return statement (undefined behaviour); the file cannot be compiled in this sandbox, so this is a text-level reading")
        else:
            rep.ok("C05.cuda", "cuda_device_array copy assignment")
    if not found:
        rep.ok("C05.cuda", "cuda_device_array: no hand-written copy assignment")


def run(rep, tier):
    # C05.a
    ws = []
    for cid, x, y in c13.conversions(tier):
        ws.append(Witness("convert :: " + cid, "namespace wc%d { void f() { covfie::field<%s> a; covfie::field<%s> b(a); (void)b; } }\n" % (len(ws), x.cxx, y.cxx), meta={"cid": cid}))
        if x.cxx != y.cxx:
            ws.append(Witness("convert-move :: " + cid, "namespace wm%d { void f() { covfie::field<%s> a; covfie::field<%s> b(std::move(a)); (void)b; } }\n" % (len(ws), x.cxx, y.cxx), meta={"cid": "move " + cid}))
    common.compile_witnesses(ws, c13.INCLUDES, tag="c05")
    for w in ws:
        if w.ok:
            rep.ok("C05.a", w.meta["cid"])
        else:
            rep.fail("C05.a", w.meta["cid"], c13.locate(w, "lib/core/covfie/core/field.hpp"), "conversion does not compile: " + w.detail)
    hs = run_conversions(rep, tier)
    run_stacks(rep, tier)
    run_rvalue(rep, tier)
    # a converted stack answers lookups as a directly constructed one does: the affine layer's lookup contract along the converting
    # route (the only stateful wrapper with a converting constructor; clamp/backup stacks do not convert)
    from . import c09, c14
    c09.declare(rep)
    for r in [r for r in rep.rules if r.startswith("C09.") and r not in ("C09.layer", "C09.compile", "C09.precision")]:
        rep.rules.pop(r, None)
    for r in ("C09.layer", "C09.compile", "C09.precision"):
        rep.rules[r]["floor"] = 3
    c09.run(c14.only(rep), tier, hs=[c09.h_layer(N, T, (N % 4) + 1, "conv") for N in ((1, 2, 3) if tier == "quick" else (1, 2, 3, 4)) for T in (("float",) if N % 2 else ("double",))])
    # C05.d hands coverage of the box to nd_map: its rules (C19) are evaluated here as well
    from . import c19
    c19.declare(rep)
    c19.run(rep, "quick")
    cuda_scan(rep)
    return hs


def check(tier):
    rep = Report("C05", tier, "other")
    declare(rep)
    hs = run(rep, tier)
    rep.assumptions = ["value equality at every coordinate is not executed; it follows from writer==reader index maps (C05.b), injectivity of those maps (C01/C14), full-box iteration (C05.d + C19) and component-wise copy",
                       "Hilbert's index map is decided by C14.d-curve; here, for conversions into/out of Hilbert, allocation, extents, side length and the copy's component structure",
                       "wrapper layers' pass-through converting constructors are covered by the compile witnesses and C17's routing rules"]
    rep.extra["conversions"] = [h.name for h in hs]
    return rep.finish(
        "Each converting constructor between array-backed storage orders is compiled with round_pow2/ipow/nd_map kept opaque (declared, undefined specialisations), which leaves loop-free IR: the reported extents, the "
        "element count handed to the storage backend and the allocated buffer size are read off as terms over the source's extents; the element-wise copy - the lambda behind nd_map's std::function - is analysed as a "
        "function of the index tuple: destination and source positions are compared with the layers' published index maps (polynomial / bit interleave) and the M components must be copied one to one.",
        "bin/vcheck C05 (g++ -fsyntax-only witnesses; clang++ -O2 -emit-llvm | build/irdump --all | engine/rules/relayout.py)",
        ["clang 14 -O2 IR faithful to source", "opaque-specialisation trick leaves the numeric helpers and nd_map as named calls", "engine/ir.py D-poly/D-bits/D-ord"])
