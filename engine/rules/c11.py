"""C11  Out-of-range lookups return the default without touching the backend.

E3 + D-ord.  For backup<probe<S,N,T,M>>: the path condition of the single
backend query and every output component are gated trees over comparisons of
{c_i, lo_i, hi_i}.  They are evaluated on the full product of per-component
weak orderings (13^N): the query executes iff every component is inside the
closed box; in that case output q is component q of the backend's value at
exactly the incoming coordinate, otherwise it is default[q].
"""
import itertools

from .. import harness, ir
from ..common import Report, AnalysisBroken
from ..harness import Harness, STYPES

FILE = "lib/core/covfie/core/backend/transformer/backup.hpp"


def make(N, M, s, t="float", route="direct"):
    ct = STYPES[s][0]
    args = ([(ct, ('c', k)) for k in range(N)] + [(ct, ('lo', k)) for k in range(N)] + [(ct, ('hi', k)) for k in range(N)] +
            [(t, ('def', q)) for q in range(M)] + [("std::uint64_t", 'tag')])
    a = lambda role: "a%d" % [r for _, r in args].index(role)
    body = """
  %s
  B::non_owning_data_t v(o);
  auto r = v.at({%s});
  %s
""" % (harness.construct(route, "backup", "%s, %d, %s, %d" % (ct, N, t, M), "B::configuration_t{{%s}, {%s}, {%s}}" % (
           ", ".join(a(('lo', k)) for k in range(N)), ", ".join(a(('hi', k)) for k in range(N)), ", ".join(a(('def', q)) for q in range(M))), a('tag')),
       ", ".join(a(('c', k)) for k in range(N)),
       " ".join("out[%d] = r[%d];" % (q, q) for q in range(M)))
    return Harness("backup_%s_%d_%s_%d_%s" % (s, N, t, M, route), args, body, out=(t, M), meta={"N": N, "M": M, "S": s, "T": t, "route": route})


def truth_arith(t):
    """an integer built from truth values only: constants, zext/sext of conditions, sums / bitwise combinations / selects of such"""
    h = t[0]
    if h == 'ci':
        return True
    if h == 'cast' and t[1] in ('zext', 'sext', 'trunc'):
        return t[3][0] in ('cmp', 'not', 'and', 'or') or ir.term_type(t[3]) == 'i1' or truth_arith(t[3])
    if h == 'op' and t[1] in ('add', 'sub', 'or', 'and', 'xor', 'mul'):
        return truth_arith(t[3]) and truth_arith(t[4])
    if h == 'sel':
        return truth_arith(t[2]) and truth_arith(t[3])
    return h in ('cmp', 'not', 'and', 'or')


def cmp_nodes(t):
    out = []
    ir.walk(t, lambda x: out.append(x) if x[0] == 'cmp' else None)
    return out


def declare(rep):
    rep.rule("C11.compile", "backup<probe<S,N,T,M>> lookup harness compiles", floor=8)
    rep.rule("C11.one-query", "at most one backend query site, on the view's own backend, at exactly the incoming coordinate", floor=8)
    rep.rule("C11.cmp", "every comparison relates c_i to lo_i or hi_i of the same component, with the coordinate type's signedness", floor=8)
    rep.rule("C11.gate", "over all products of per-component orderings: the backend is queried iff every component lies in the closed box", floor=100)
    rep.rule("C11.out", "over the same orderings: output q is backend value[q] when in range and default[q] otherwise", floor=100)


def harnesses(tier):
    if tier == "quick":
        combos = [(N, M, s) for N in (1, 2, 3) for s in ("size_t", "int", "float") for M in ((N % 3) + 1,)] + [(2, 2, "double"), (1, 4, "unsigned")]
    else:
        combos = [(N, M, s) for N in (1, 2, 3, 4) for M in (1, 2, 3, 4) for s in ("size_t", "unsigned", "int", "float", "double")]
    hs = [make(N, M, s, "double" if (N + M) % 2 else "float") for (N, M, s) in combos]
    # the same contract along every other construction route
    for i, route in enumerate(harness.ROUTES[2:]):  # clamp and backup have no converting constructor
        for N in ((1, 2, 3) if tier != "quick" else (1 + i % 3,)):
            hs.append(make(N, (N % 3) + 1, ("int", "float", "size_t")[(i + N) % 3], "float", route))
    return hs


def run(rep, tier):
    hs = harnesses(tier)
    harness.build(hs, "c11")
    o3 = list(ir.weak_orderings(3))
    for h in hs:
        N, M, S, T = h.meta["N"], h.meta["M"], h.meta["S"], h.meta["T"]
        tsz = 4 if T == "float" else 8
        inst = "backup<%s,%d,%s,%d>" % (S, N, T, M) + (" via " + h.meta["route"] if h.meta.get("route", "direct") != "direct" else "")
        if h.error:
            loc, msg = harness.first_error(h)
            rep.fail("C11.compile", inst, loc, "does not compile: " + msg)
            continue
        rep.ok("C11.compile", inst)
        s = ir.Sym(h.func)
        if s.unknown:
            raise AnalysisBroken("C11 %s: unmodelled instruction %s" % (inst, s.unknown[0]["op"]))
        sinks = s.opaque_calls("_ZN5verif4sink")
        others = [c for c in s.calls if c not in sinks]
        if len(sinks) != 1 or others:
            rep.fail("C11.one-query", inst, FILE, "expected one backend query site, found %d (other calls %s)" % (len(sinks), [c.dname for c in others][:3]))
            continue
        call = sinks[0]
        exp_args = (h.atom('tag'),) + tuple(h.atom(('c', k)) for k in range(N))
        if call.args != exp_args:
            rep.fail("C11.one-query", inst, ir.where(call.inst), "backend queried at (%s), expected the unchanged coordinate" % ", ".join(ir.show(a) for a in call.args[1:]))
            continue
        rep.ok("C11.one-query", inst)
        kind = STYPES[S][1]
        comp = {}
        for k in range(N):
            for r in ('c', 'lo', 'hi'):
                comp[h.atom((r, k))] = k
        outs = s.outputs(h.out_index)
        trees = [call.cond] + [outs.get(tsz * q) for q in range(M)]
        if any(t is None for t in trees):
            rep.fail("C11.out", inst, FILE, "an output component is never written")
            continue
        bad = None
        for t in trees:
            for c in cmp_nodes(t):
                a, b = c[2], c[3]
                if truth_arith(a) and truth_arith(b):
                    continue        # a test of 0/1 results of comparisons (branch-free code); the comparisons inside are visited themselves
                if a not in comp or b not in comp or comp[a] != comp[b]:
                    bad = "comparison %s relates values of different components or non-configuration values" % ir.show(c)
        if bad:
            rep.fail("C11.cmp", inst, ir.where(call.inst), bad)
            continue
        # signedness is collected during evaluation
        badpred = set()
        n_eval = 0
        failed = False
        for combo in itertools.product(o3, repeat=N):
            rank = {}
            inr = True
            for k, r in enumerate(combo):
                c, lo, hi = h.atom(('c', k)), h.atom(('lo', k)), h.atom(('hi', k))
                rank[c], rank[lo], rank[hi] = r
                if r[0] < r[1] or r[0] > r[2]:
                    inr = False
            ev = ir.OrdEval(rank, kind)
            g = ev.cond(call.cond)
            if g is None:
                raise AnalysisBroken("C11 %s: query path condition is not order-evaluable: %s" % (inst, ir.show(call.cond)))
            n_eval += 1
            if g != inr:
                rep.fail("C11.gate", inst, ir.where(call.inst), "for per-component ranks (c,lo,hi)=%s the coordinate is %s the closed box but the backend is %squeried" % (
                    list(combo), "inside" if inr else "outside", "" if g else "not "), {"ordering": combo})
                failed = True
                break
            for q in range(M):
                v = ev_value(ev, outs[tsz * q])
                exp = ('ld', ('ret', call.n), tsz * q, tsz, T, 0) if inr else h.atom(('def', q))
                if v != exp:
                    rep.fail("C11.out", "%s out[%d]" % (inst, q), FILE, "for per-component ranks (c,lo,hi)=%s (%s range) output %d is %s, expected %s" % (
                        list(combo), "in" if inr else "out of", q, ir.show(v) if v else "?", "backend value[%d]" % q if inr else "default[%d]" % q), {"ordering": combo})
                    failed = True
                    break
            badpred |= set(ev.bad_pred)
            if failed:
                break
        if failed:
            continue
        rep.rules["C11.gate"]["instances"] += n_eval - 1
        rep.rules["C11.out"]["instances"] += n_eval * M - 1
        rep.obligations += n_eval * (M + 1) - 2
        rep.discharged += n_eval * (M + 1) - 2
        rep.ok("C11.gate", inst, sample={"instance": inst, "orderings_evaluated": n_eval, "query_condition": ir.show(call.cond)[:300]})
        rep.ok("C11.out", inst)
        if badpred:
            rep.fail("C11.cmp", inst, ir.where(call.inst), "comparison predicate(s) %s do not match coordinate kind %s" % (sorted(badpred), kind))
        else:
            rep.ok("C11.cmp", inst)
    return hs


def check(tier):
    rep = Report("C11", tier, "proof")
    declare(rep)
    hs = run(rep, tier)
    rep.assumptions = ["NaN coordinates excluded (as in the property)"]
    rep.extra["instantiations"] = [h.name for h in hs]
    return rep.finish(
        "Abstract evaluation over order types of backup<probe<S,N,T,M>>::at: the path condition of the backend query and each output's gated select "
        "tree are evaluated on all 13^N products of weak orderings of (c_i, lo_i, hi_i); queried iff inside the closed box, outputs routed from the "
        "backend value or the configured default accordingly. Comparisons are first shown to stay within one component (dependence facts).",
        "bin/vcheck C11 (clang++ -O2 -emit-llvm | build/irdump | engine/ir.py OrdEval)",
        ["clang 14 -O2 IR faithful to source", "engine/ir.py term builder and OrdEval"], exhaustive=True)


def ev_value(ev, t):
    """Evaluate a gated tree whose leaves are arbitrary terms."""
    while t[0] == 'sel':
        c = ev.cond(t[1])
        if c is None:
            return None
        t = t[2] if c else t[3]
    return t
