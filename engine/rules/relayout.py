"""Layout-conversion constructors (shared by C01, C05, C18's sizing clause).

A harness converts `const Src::owning_data_t &` (array-backed, passed by pointer) into a local Dst::owning_data_t
and writes the destination's element count and extents to `out`.  round_pow2 / ipow / nd_map are kept opaque by
declaring - not defining - their explicit specialisations, so the constructor is loop-free IR with named calls.
The element-wise copy is the body of the lambda handed to nd_map; it survives as the std::function invoker
(`..make_<layout>_copy..::_M_invoke`) and is analysed as a function of the index tuple it receives.
"""
import itertools

from .. import harness, ir
from ..common import AnalysisBroken
from ..harness import Harness
from .c14_hilbert import OPAQUE

RP2 = "_ZN6covfie7utility10round_pow2"
IPOW = "_ZN6covfie7utility4ipow"
NDMAP = "_ZN6covfie7utility6nd_map"
FILES = {"strided": "lib/core/covfie/core/backend/transformer/strided.hpp", "morton": "lib/core/covfie/core/backend/transformer/morton.hpp",
         "hilbert": "lib/core/covfie/core/backend/transformer/hilbert.hpp"}


def includes(Ns):
    s = OPAQUE + "namespace covfie::utility {\n"
    for N in sorted(set(Ns)):
        s += "template <> void nd_map<covfie::array::array<std::size_t, %d>>(std::function<void(covfie::array::array<std::size_t, %d>)>, covfie::array::array<std::size_t, %d>);\n" % (N, N, N)
    s += "}\n"
    return s


def layout_type(kind, N, T, M):
    a = "array<verif::vd<%s, %d>>" % (T, M)
    if kind == "strided":
        return "strided<verif::vd<std::size_t, %d>, %s>" % (N, a)
    if kind == "morton_bmi2":
        return "morton<verif::vd<std::size_t, %d>, %s, true>" % (N, a)
    if kind == "morton_portable":
        return "morton<verif::vd<std::size_t, %d>, %s, false>" % (N, a)
    if kind == "hilbert":
        return "hilbert<verif::vd<std::size_t, 2>, %s>" % a
    raise ValueError(kind)


def make(src, dst, N, T, M):
    body = """
  using S = %s;
  using D = %s;
  D::owning_data_t o(*static_cast<const S::owning_data_t *>(a0));
  out[0] = o.get_backend().get_configuration()[0];
  %s
""" % (layout_type(src, N, T, M), layout_type(dst, N, T, M), " ".join("out[%d] = o.get_configuration()[%d];" % (1 + k, k) for k in range(N)))
    return Harness("conv_%s_to_%s_%d_%s%d" % (src, dst, N, T, M), [("const void *", 'src')], body, out=("std::size_t", N + 1),
                   meta={"src": src, "dst": dst, "N": N, "T": T, "M": M})


def make_rvalue(src, dst, N, T, M):
    body = """
  using S = %s;
  using D = %s;
  D::owning_data_t o(std::move(*static_cast<S::owning_data_t *>(a0)));
  out[0] = o.get_backend().get_configuration()[0];
  out[1] = reinterpret_cast<std::size_t>(o.get_backend().m_ptr.get());
""" % (layout_type(src, N, T, M), layout_type(dst, N, T, M))
    return Harness("convrv_%s_to_%s_%d_%s%d" % (src, dst, N, T, M), [("void *", 'src')], body, out=("std::size_t", 2),
                   meta={"src": src, "dst": dst, "N": N, "T": T, "M": M, "rvalue": True})


def combos(tier):
    out = []
    Ns = (1, 2, 3) if tier == "quick" else (1, 2, 3, 4)
    TM = [("float", 3)] if tier == "quick" else [("float", 3), ("double", 2), ("float", 1)]
    for N in Ns:
        for (T, M) in TM:
            kinds = ["strided", "morton_portable", "morton_bmi2"] + (["hilbert"] if N == 2 else [])
            for s in kinds:
                for d in kinds:
                    if tier == "quick" and s not in ("strided", "morton_portable") and d not in ("strided",):
                        continue
                    out.append((s, d, N, T, M))
    return out


_cache = {}


def build(tier):
    if tier in _cache:
        return _cache[tier]
    cs = combos(tier)
    hs = [make(*c) for c in cs]
    inc = includes([c[2] for c in cs])
    plain = [h for h in hs if "bmi2" not in h.meta["src"] + h.meta["dst"]]
    bmi = [h for h in hs if h not in plain]
    harness.build(plain, "relayout", includes=inc, per_tu=1, dump_all=True)
    if bmi:
        harness.build(bmi, "relayout_bmi", includes=inc, per_tu=1, dump_all=True, extra=("-mbmi2",))
    _cache[tier] = hs
    return hs


def src_size_atom(k):
    return ('ld', ('arg', 0), 8 * k, 8, 'i64', 0)


def is_max_of(t, atoms_, kind='unsigned'):
    """D-ord: t evaluates to the maximum of atoms_ on every weak ordering"""
    n = len(atoms_)
    for r in ir.weak_orderings(n):
        rank = dict(zip(atoms_, r))
        v = ir.OrdEval(rank, kind).value(t)
        if v is None or v not in rank:
            return None, r
        if rank[v] != max(r):
            return False, r
    return True, None


def count_form(t, dst, N, sizes, power=None):
    """does the element-count term have the required form over the given extent atoms?  -> (ok, why)"""
    t = ir.strip_casts(t)
    if dst == "strided":
        p = ir.to_poly(t, 'int', width=64)
        exp = ir.Poly.const(1, 1 << 64)
        for a in sizes:
            exp = exp * ir.Poly.atom(a, 1 << 64)
        if p == exp:
            return True, None
        return False, "element count is %s, expected the product of all %d extents" % (p.show({a: "s%d" % i for i, a in enumerate(sizes)}), N)
    names = {a: "s%d" % i for i, a in enumerate(sizes)}
    if t[0] == 'call' and (t[1] or "").startswith(IPOW) and t[4] == ('ci', N, 64) and t[3][0] == 'call' and (t[3][1] or "").startswith(RP2):
        base = t[3]
        ok, r = is_max_of(base[3], sizes)
        if ok is None:
            return False, "argument of round_pow2 is not a max tree over the extents: %s" % ir.show(base[3])[:120]
        if not ok:
            return False, "round_pow2 is applied to %s, which is not the largest extent for ordering %s" % (ir.show(base[3], names)[:120], r)
        return True, None
    # another spelling (a cached side, a bit trick instead of round_pow2, side*side instead of ipow): the count is a
    # straight-line integer expression over the extents; it is evaluated at the extent tuples where such an expression can
    # change its value and must be (least power of two >= largest extent)^N there.  utility::round_pow2 / ipow calls inside
    # it are given their specified meaning (C18 decides that they have it).
    from .hilbert_curve import ev_int, rp2
    from ..common import AnalysisBroken as AB

    def ev(x, env, memo=None):
        if memo is None:
            memo = env.setdefault('__memo__', {})
        k = id(x)
        if k in memo:
            return memo[k][1]
        r = ev1(x, env)
        memo[k] = (x, r)
        return r

    def lit(v):
        return ('ci', int(v), 64)

    def ev1(x, env):
        if x[0] == 'call' and (x[1] or "").startswith(RP2):
            return rp2(ev(x[3], env))
        if x[0] == 'call' and (x[1] or "").startswith(IPOW):
            return pow(ev(x[3], env), ev(x[4], env), 1 << 64)
        if x in env or x[0] in ('ci',):
            return ev_int(x, env)
        if x[0] == 'op':
            return ev_int((x[0], x[1], x[2], lit(ev(x[3], env)), lit(ev(x[4], env))), env)
        if x[0] == 'cmp':
            return ev_int(('cmp', x[1], lit(ev(x[2], env)), lit(ev(x[3], env))), env)
        if x[0] == 'sel':
            return ev(x[2], env) if ev(x[1], env) else ev(x[3], env)
        if x[0] == 'cast':
            return ev_int((x[0], x[1], x[2], lit(ev(x[3], env))), env)
        if x[0] == 'fn':
            return ev_int(x[:3] + tuple(lit(ev(y, env)) for y in x[3:]), env)
        if x[0] in ('not', 'and', 'or'):
            vs = [ev(y, env) for y in x[1:]]
            return (not vs[0]) if x[0] == 'not' else (vs[0] and vs[1]) if x[0] == 'and' else (vs[0] or vs[1])
        if x[0] == 'extractvalue' and x[1][0] in ('fn', 'call') and (x[1][1] or "").startswith("llvm.umul.with.overflow"):
            prod = ev(x[1][3], env) * ev(x[1][4], env)
            return (prod & ((1 << 64) - 1)) if x[2] == 0 else (prod >> 64 != 0)
        raise AB("element count uses an operation this evaluation does not know: %s" % ir.show(x)[:80])
    import itertools
    from .hilbert_curve import step_expr
    reps = []
    for k in range(0, 20):
        for m_ in sorted({max(1, (1 << k) + d_) for d_ in (-2, -1, 0, 1, 2)}):
            others = sorted({1, m_, max(1, m_ // 2), max(1, m_ - 1)})
            for pos in range(N):
                for rest in itertools.product(others, repeat=N - 1) if N <= 3 else [tuple([others[0]] * (N - 1)), tuple([m_] * (N - 1))]:
                    tup = list(rest[:pos]) + [m_] + list(rest[pos:])
                    reps.append(tuple(tup))
    try:
        for tup in sorted(set(reps)):
            env = dict(zip(sizes, tup))
            v = ev(t, env)
            want = pow(rp2(max(tup)), N if power is None else power, 1 << 64)
            if v != want:
                return False, "value is %d for extents %s, expected %d = (largest extent rounded up to a power of two)^%d; the expression is %s" % (v, tup, want, N if power is None else power, ir.show(t, names)[:100])
    except AB as e:
        return None, "element count %s is not of the form ipow(round_pow2(max extent), %d) and could not be evaluated (%s)" % (ir.show(t, names)[:80], N, e)
    # no witness against it: that is a proof only for a step expression (constant between the points evaluated)
    if not step_expr(t, set(sizes)):
        return None, "element count %s agrees with (round_pow2(max extent))^%d at every extent tuple tried but is not a step expression of the extents, so agreement in between is not decided" % (ir.show(t, names)[:80], N)
    return True, None


def find_lambda(h):
    want = {"strided": "make_strided_copy", "morton_portable": "make_morton_copy", "morton_bmi2": "make_morton_copy", "hilbert": "make_hilbert_copy"}[h.meta["dst"]]
    c = [f for n, f in h.module["functions"].items() if want in n and "_M_invoke" in n]
    return c[0] if len(c) == 1 else None
