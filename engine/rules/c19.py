"""C19  N-dimensional iteration visits every index exactly once.

std::function type erasure defeats IR-level analysis (indirect calls survive every optimisation level), so the
recursion is decided on the type-checked syntax tree of every instantiation nd_map<array<T,N>>, N = 1..5
(clang -ast-dump=json, filtered to nd_map), plus exact IR facts for the two tuple helpers:
  C19.tail / C19.cat   tail(t)[k] == t[k+1];  cat(a,b)[k] == a[k] for k < N1, b[k-N1] otherwise   (D-route)
  C19.loop   the instantiation's live body (after `if constexpr`) is exactly one counted loop: induction variable
             initialised to 0, strict comparison with component 0 of the extent tuple, step +1, neither the
             variable nor the tuple modified in the body; several spellings are accepted
  C19.body   N = 1: the body calls the callback exactly once with {i}.  N > 1: it calls nd_map<tail type> exactly once
             with tail(s) and a callback that calls the outer callback exactly once with cat({i}, r)
Induction on N then gives: the callback runs exactly once for every tuple of the box and for no other, zero
extents included (the loop for that axis runs zero times).  A body of any other shape (an iterative rewrite, an
unrolled special case) is NOT guessed at: it is reported as analysis-broken (exit 2), never as a pass.
"""
import json
import os
import re
import subprocess

from .. import common, harness, ir
from ..common import Report, AnalysisBroken
from ..harness import Harness

FILE = "lib/core/covfie/core/utility/nd_map.hpp"
WRAPPERS = {"ImplicitCastExpr", "ExprWithCleanups", "MaterializeTemporaryExpr", "CXXBindTemporaryExpr", "ConstantExpr", "ParenExpr",
            "CXXStaticCastExpr", "CStyleCastExpr", "FullExpr", "SubstNonTypeTemplateParmExpr"}


def ast_instances(Ns, scalars=("std::size_t",)):
    inc = common.mirror()
    d = os.path.join(common.scratch(), "c19")
    os.makedirs(d, exist_ok=True)
    src = os.path.join(d, "nd.cc")
    with open(src, "w") as fh:
        fh.write("#include <covfie/core/utility/nd_map.hpp>\n")
        for T in scalars:
            for N in Ns:
                a = "covfie::array::array<%s, %d>" % (T, N)
                fh.write("template void covfie::utility::nd_map<%s>(std::function<void(%s)>, %s);\n" % (a, a, a))
    r = subprocess.run(["clang++", "-std=c++20", "-fsyntax-only", "-Wno-everything", "-Xclang", "-ast-dump=json", "-Xclang", "-ast-dump-filter=nd_map",
                        "-I" + os.path.join(inc, "core"), src], capture_output=True, text=True)
    if r.returncode != 0:
        raise AnalysisBroken("clang cannot parse the nd_map instantiation unit: " + r.stderr[-300:])
    dec = json.JSONDecoder()
    i, objs, s = 0, [], r.stdout
    while i < len(s):
        while i < len(s) and s[i] in " \n\r\t":
            i += 1
        if i >= len(s):
            break
        o, i = dec.raw_decode(s, i)
        objs.append(o)
    fts = [o for o in objs if o.get("kind") == "FunctionTemplateDecl" and o.get("name") == "nd_map"]
    if len(fts) != 1:
        raise AnalysisBroken("expected exactly one function template nd_map, found %d" % len(fts))
    out = {}
    for c in fts[0].get("inner", []):
        if c.get("kind") == "FunctionDecl" and c.get("name") == "nd_map":
            ta = [x for x in c.get("inner", []) if x.get("kind") == "TemplateArgument"]
            if ta:
                out[ta[0]["type"]["qualType"]] = c
    return out


def kids(n):
    return [c for c in n.get("inner", []) if c.get("kind")]


def strip(n):
    while n.get("kind") in WRAPPERS and kids(n):
        n = kids(n)[0]
    return n


def short_type(n):
    t = (n.get("type") or {}).get("qualType", "")
    t = re.sub(r"\bcovfie::array::|\barray::|typename |const |&", "", t).strip()
    return t


def canon(n):
    """canonical s-expression of an expression / statement subtree, wrappers removed"""
    n = strip(n)
    k = n.get("kind")
    ks = kids(n)
    if k == "DeclRefExpr":
        return (n.get("referencedDecl") or {}).get("name", "?")
    if k == "IntegerLiteral":
        return str(n.get("value"))
    if k in ("BinaryOperator", "CompoundAssignOperator"):
        return "(%s %s %s)" % (n.get("opcode"), canon(ks[0]), canon(ks[1]))
    if k == "UnaryOperator":
        return "(%s%s %s)" % (n.get("opcode"), "post" if n.get("isPostfix") else "", canon(ks[0]))
    if k == "MemberExpr":
        return "%s.%s" % (canon(ks[0]) if ks else "?", n.get("name"))
    if k == "CXXMemberCallExpr":
        return "(mcall %s %s)" % (canon(ks[0]), " ".join(canon(a) for a in ks[1:]))
    if k == "CXXOperatorCallExpr":
        op = canon(ks[0])
        return "(opcall %s %s)" % (op, " ".join(canon(a) for a in ks[1:]))
    if k == "CallExpr":
        return "(call %s %s)" % (canon(ks[0]), " ".join(canon(a) for a in ks[1:]))
    if k in ("CXXConstructExpr", "CXXTemporaryObjectExpr", "CXXFunctionalCastExpr", "InitListExpr"):
        args = [canon(a) for a in ks]
        ty = short_type(n)
        if k == "CXXConstructExpr" and len(ks) == 1 and short_type(strip(ks[0])) == ty:
            return args[0]          # copy / move construction
        if ty.startswith("std::function") and len(ks) == 1:
            return args[0]
        return "(make %s %s)" % (ty, " ".join(args))
    if k == "LambdaExpr":
        rec = [c for c in ks if c.get("kind") == "CXXRecordDecl"]
        body = [c for c in ks if c.get("kind") == "CompoundStmt"]
        params = []
        caps = []
        if rec:
            for m in kids(rec[0]):
                if m.get("kind") == "CXXMethodDecl" and m.get("name") == "operator()":
                    params = [p.get("name") for p in kids(m) if p.get("kind") == "ParmVarDecl"]
                if m.get("kind") == "FieldDecl":
                    caps.append(short_type(m))
        return "(lambda (%s) %s)" % (" ".join(params), canon(body[0]) if body else "?")
    if k == "CompoundStmt":
        return "{%s}" % " ; ".join(canon(c) for c in ks if c.get("kind") != "NullStmt")
    if k == "DeclStmt":
        return "(decl %s)" % " ".join(canon(c) for c in ks)
    if k == "VarDecl":
        return "(var %s %s)" % (n.get("name"), canon(ks[0]) if ks else "")
    if k in ("TypeAliasDecl", "TypedefDecl", "UsingDecl"):
        return "(alias %s)" % n.get("name")
    if k == "ForStmt":
        parts = n.get("inner", [])
        return "(for %s)" % " | ".join(canon(p) if p.get("kind") else "-" for p in parts)
    if k == "IfStmt":
        return "(if %s)" % " ".join(canon(c) for c in ks)
    if k == "ReturnStmt":
        return "(return %s)" % " ".join(canon(c) for c in ks)
    if k == "NullStmt":
        return "-"
    return "<%s %s>" % (k, " ".join(canon(c) for c in ks))


def live_statements(body):
    """statements of the function body that survive `if constexpr` in this instantiation"""
    out = []
    for st in kids(body):
        st2 = strip(st)
        if st2.get("kind") == "IfStmt":
            ks = kids(st2)
            cond = ks[0]
            val = cond.get("value") if cond.get("kind") == "ConstantExpr" else None
            if val is None:
                out.append(st2)
                continue
            branch = ks[1] if val == "true" else (ks[2] if len(ks) > 2 else None)
            if branch is None or branch.get("kind") == "NullStmt":
                continue
            if branch.get("kind") == "CompoundStmt":
                out += live_statements(branch)
            elif branch.get("kind") == "IfStmt":
                out += live_statements({"inner": [branch]})
            else:
                out.append(branch)
        elif st2.get("kind") == "CompoundStmt":
            out += live_statements(st2)
        elif st2.get("kind") == "NullStmt":
            continue
        else:
            out.append(st2)
    return out


def modifies(n, names):
    """does the subtree assign to / increment any of the variables?"""
    found = []

    def rec(x):
        k = x.get("kind")
        ks = kids(x)
        if k in ("BinaryOperator", "CompoundAssignOperator") and (x.get("opcode", "").endswith("=") and x.get("opcode") not in ("==", "!=", "<=", ">=")):
            lhs = canon(ks[0])
            if lhs.split(".")[0].strip("()") in names or any(lhs.startswith("(mcall %s." % nm) or lhs.startswith("(opcall operator[] %s" % nm) for nm in names):
                found.append(canon(x))
        if k == "UnaryOperator" and x.get("opcode") in ("++", "--"):
            if canon(ks[0]) in names:
                found.append(canon(x))
        for c in ks:
            rec(c)
    rec(n)
    return found


INIT_OK = re.compile(r"^\(decl \(var (\w+) 0\)\)$")
INC_OK = [r"^\(\+\+ %s\)$", r"^\(\+\+post %s\)$", r"^\(\+= %s 1\)$", r"^\(= %s \(\+ %s 1\)\)$"]


def check_instance(rep, tname, fd, N):
    inst = "nd_map<%s>" % tname.replace("covfie::array::", "")
    parms = [p.get("name") for p in kids(fd) if p.get("kind") == "ParmVarDecl"]
    body = [c for c in kids(fd) if c.get("kind") == "CompoundStmt"]
    if len(parms) != 2 or not body:
        raise AnalysisBroken("C19 %s: unexpected signature" % inst)
    f, s = parms
    live = [st for st in live_statements(body[0]) if not canon(st).startswith("(decl (alias")]
    fors = [st for st in live if st.get("kind") == "ForStmt"]
    if N == 0:
        return
    if len(live) != 1 or len(fors) != 1:
        raise AnalysisBroken("C19 %s: body is not a single counted loop (%d live statements: %s); idiom not recognised - re-confirm by reading %s" % (
            inst, len(live), "; ".join(canon(x)[:60] for x in live)[:200], FILE))
    fs = fors[0]
    parts = fs.get("inner", [])
    init, cond, inc, fbody = parts[0], parts[2], parts[3], parts[4]
    m = INIT_OK.match(canon(init)) if init.get("kind") else None
    why = None
    if not m:
        why = "loop does not start its index at 0: %s" % (canon(init) if init.get("kind") else "no initialiser")
    else:
        i = m.group(1)
        c = canon(cond)
        bound_forms = ["(mcall %s.at 0)" % s, "(opcall operator[] %s 0)" % s]
        if not any(c == "(< %s %s)" % (i, b) or c == "(!= %s %s)" % (i, b) or c == "(> %s %s)" % (b, i) for b in bound_forms):
            why = "loop condition is %s, expected %s < %s.at(0) (strict, component 0 of the extent tuple)" % (c, i, s)
        elif not any(re.match(p % ((re.escape(i),) * p.count("%s")), canon(inc)) for p in INC_OK):
            why = "loop step is %s, expected +1" % canon(inc)
        else:
            mods = modifies(fbody, {i, s})
            if mods:
                why = "loop body modifies the index or the extents: %s" % mods[0]
    if why:
        rep.fail("C19.loop", inst, FILE, why)
        return
    rep.ok("C19.loop", inst)
    stmts = [st for st in live_statements(fbody if fbody.get("kind") == "CompoundStmt" else {"inner": [fbody]})]
    subst = {}
    while len(stmts) > 1 and stmts[0].get("kind") == "DeclStmt":
        # single-assignment temporaries are substituted into the statement that follows
        mdecl = re.match(r"^\(decl \(var (\w+) (.*)\)\)$", canon(stmts[0]))
        if not mdecl or modifies({"inner": stmts[1:]}, {mdecl.group(1)}):
            break
        subst[mdecl.group(1)] = mdecl.group(2)
        stmts = stmts[1:]
    if len(stmts) != 1:
        raise AnalysisBroken("C19 %s: loop body has %d statements (%s); only single-call bodies are recognised - re-confirm by reading %s" % (
            inst, len(stmts), "; ".join(canon(x)[:50] for x in stmts)[:160], FILE))
    c = canon(stmts[0])
    for name, val in subst.items():
        c = re.sub(r"(?<![\w.])%s(?![\w])" % re.escape(name), val.replace("\\", "\\\\"), c)
    prev = None
    while prev != c:        # a copy of a freshly made tuple is that tuple
        prev = c
        c = re.sub(r"\(make array<[^()]*> (\(make array<[^()]*> [^()]*\))\)", r"\1", c)
    if stmts[0].get("kind") == "ForStmt" and N > 1:
        # second recognised formulation: a hand-written nest of N canonical loops, loop k over component k
        ivs = [i]
        cur = stmts[0]
        for k in range(1, N):
            if cur.get("kind") != "ForStmt":
                raise AnalysisBroken("C19 %s: loop nest of depth %d expected, shape not recognised: %s" % (inst, N, canon(cur)[:120]))
            pk = cur.get("inner", [])
            mk = INIT_OK.match(canon(pk[0])) if pk[0].get("kind") else None
            if not mk:
                rep.fail("C19.loop", "%s level %d" % (inst, k), FILE, "nested loop %d does not start at 0: %s" % (k, canon(pk[0])[:80]))
                return
            ik = mk.group(1)
            ck = canon(pk[2])
            if ck not in ("(< %s (mcall %s.at %d))" % (ik, s, k), "(< %s (opcall operator[] %s %d))" % (ik, s, k), "(!= %s (mcall %s.at %d))" % (ik, s, k)):
                rep.fail("C19.loop", "%s level %d" % (inst, k), FILE, "nested loop %d runs while %s, expected %s < %s.at(%d)" % (k, ck, ik, s, k))
                return
            if not any(re.match(pp % ((re.escape(ik),) * pp.count("%s")), canon(pk[3])) for pp in INC_OK):
                rep.fail("C19.loop", "%s level %d" % (inst, k), FILE, "nested loop %d steps by %s, expected +1" % (k, canon(pk[3])))
                return
            ivs.append(ik)
            inner = live_statements(pk[4] if pk[4].get("kind") == "CompoundStmt" else {"inner": [pk[4]]})
            if len(inner) != 1:
                rep.fail("C19.body", inst, FILE, "nested loop %d has %d statements in its body, expected one" % (k, len(inner)))
                return
            cur = inner[0]
        want = r"^\(opcall operator\(\) %s \(make array<[^()]*> %s\)\)$" % (re.escape(f), " ".join(re.escape(x) for x in ivs))
        if re.match(want, canon(cur)) and not modifies(cur, set(ivs) | {s}):
            rep.ok("C19.body", inst)
        else:
            rep.fail("C19.body", inst, FILE, "innermost statement of the loop nest is %s, expected one call %s({%s})" % (canon(cur)[:160], f, ", ".join(ivs)))
        return
    if not (c.startswith("(call nd_map") or c.startswith("(opcall operator() %s" % f)):
        raise AnalysisBroken("C19 %s: loop body is %s; neither the recursive nor the loop-nest formulation - idiom not recognised, re-confirm by reading %s" % (inst, c[:140], FILE))
    T = re.search(r"array<([^,]+),", tname).group(1)
    one = r"\(make array<[^()]*?, 1(?:U|UL|ul|u)?> %s\)" % re.escape(i)
    if N == 1:
        pat = r"^\(opcall operator\(\) %s %s\)$" % (re.escape(f), one)
        if re.match(pat, c):
            rep.ok("C19.body", inst, sample={"instantiation": inst, "body": c})
        else:
            rep.fail("C19.body", inst, FILE, "1-D body is %s, expected exactly one call %s({%s})" % (c[:160], f, i))
        return
    lam = r"\(lambda \((\w+)\) \{\(opcall operator\(\) %s \(call cat %s (\w+)\)\)\}\)" % (re.escape(f), one)
    pat = r"^\(call nd_map %s \(call tail %s\)\)$" % (lam, re.escape(s))
    mm = re.match(pat, c)
    if mm and mm.group(1) == mm.group(2):
        # the recursive call must be the instantiation for the tail type
        callee = strip(kids(strip(stmts[0]))[0])
        cty = (callee.get("type") or {}).get("qualType", "")
        if re.search(r"array<[^,]+, %d(?:U|UL|ul|u)?>" % (N - 1), cty.replace("2UL - 1", "1")) or ("%dUL - 1" % N) in cty or ("%d" % (N - 1)) in cty:
            rep.ok("C19.body", inst, sample={"instantiation": inst, "body": c[:200]} if N == 3 else None)
        else:
            rep.fail("C19.body", inst, FILE, "recursive call is %s, not nd_map over the %d-dimensional tail" % (cty[:100], N - 1))
    else:
        rep.fail("C19.body", inst, FILE, "body is %s; expected exactly one nd_map(callback calling %s(cat({%s}, r)) once, tail(%s))" % (c[:220], f, i, s))


# ---- tuple helpers (IR, exact) ---------------------------------------------
def h_tail(N):
    args = [("std::size_t", ('t', k)) for k in range(N)]
    body = "  auto r = covfie::utility::tail(covfie::array::array<std::size_t, %d>{%s});\n  %s" % (
        N, ", ".join("a%d" % k for k in range(N)), " ".join("out[%d] = r[%d];" % (k, k) for k in range(N - 1)))
    return Harness("tail_%d" % N, args, body, out=("std::size_t", N - 1), meta={"kind": "tail", "N": N})


def h_cat(N1, N2):
    args = [("std::size_t", ('a', k)) for k in range(N1)] + [("std::size_t", ('b', k)) for k in range(N2)]
    body = "  auto r = covfie::utility::cat(covfie::array::array<std::size_t, %d>{%s}, covfie::array::array<std::size_t, %d>{%s});\n  %s" % (
        N1, ", ".join("a%d" % k for k in range(N1)), N2, ", ".join("a%d" % (N1 + k) for k in range(N2)), " ".join("out[%d] = r[%d];" % (k, k) for k in range(N1 + N2)))
    return Harness("cat_%d_%d" % (N1, N2), args, body, out=("std::size_t", N1 + N2), meta={"kind": "cat", "N1": N1, "N2": N2})


def declare(rep):
    rep.rule("C19.tail", "tail(t)[k] == t[k+1] for every k", floor=3)
    rep.rule("C19.cat", "cat(a, b)[k] == a[k] (k < N1) / b[k-N1]", floor=3)
    rep.rule("C19.loop", "each instantiation's live body is one canonical counted loop over component 0 of the extents", floor=4)
    rep.rule("C19.body", "loop body: one callback call with {i} (N=1) or one recursive nd_map over tail(s) whose callback calls the outer one once with cat({i}, r)", floor=4)


def run(rep, tier):
    Ns = (1, 2, 3, 4, 5)
    scal = ("std::size_t",) if tier == "quick" else ("std::size_t", "int", "unsigned int")
    hs = [h_tail(N) for N in (2, 3, 4, 5)] + [h_cat(1, N2) for N2 in (1, 2, 3, 4)] + [h_cat(2, 2), h_cat(3, 1)]
    harness.build(hs, "c19")
    for h in hs:
        if h.error:
            loc, msg = harness.first_error(h)
            rep.fail("C19.tail" if h.meta["kind"] == "tail" else "C19.cat", h.name, loc, "does not compile: " + msg)
            continue
        s = ir.Sym(h.func)
        outs = {k: ir.ungate(v) for k, v in s.outputs(h.out_index).items()}
        if h.meta["kind"] == "tail":
            N = h.meta["N"]
            bad = [k for k in range(N - 1) if outs.get(8 * k) != ('arg', k + 1)]
            if bad:
                rep.fail("C19.tail", h.name, FILE, "tail(t)[%d] is %s, expected t[%d]" % (bad[0], ir.show(outs.get(8 * bad[0])), bad[0] + 1))
            else:
                rep.ok("C19.tail", h.name)
        else:
            n = h.meta["N1"] + h.meta["N2"]
            bad = [k for k in range(n) if outs.get(8 * k) != ('arg', k)]
            if bad:
                rep.fail("C19.cat", h.name, FILE, "cat(a,b)[%d] is %s" % (bad[0], ir.show(outs.get(8 * bad[0]))))
            else:
                rep.ok("C19.cat", h.name)
    insts = ast_instances(Ns, scal)
    seen = 0
    for tname, fd in sorted(insts.items()):
        m = re.search(r"array<[^,]+, (\d+)", tname)
        if not m:
            continue
        N = int(m.group(1))
        if N == 0:
            continue
        seen += 1
        check_instance(rep, tname, fd, N)
    if seen < len(Ns):
        raise AnalysisBroken("only %d nd_map instantiations found in the syntax tree" % seen)
    return hs


def check(tier):
    rep = Report("C19", tier, "other")
    declare(rep)
    run(rep, tier)
    rep.assumptions = ["induction on the dimensionality: the N-dimensional instantiation is correct if the (N-1)-dimensional one is, given the loop and body facts",
                       "std::function invokes the callable it was constructed from (library contract)",
                       "a body of another shape is reported as analysis-broken (exit 2) and must be re-confirmed by reading: this check recognises the recursive formulation only"]
    return rep.finish(
        "Syntax-tree rule over every instantiation nd_map<array<T,N>>, N=1..5 (clang's type-checked AST with `if constexpr` resolved): exactly one canonical counted loop over extent component 0 whose body performs exactly one "
        "callback call ({i}) or one recursive call over tail(s) with a callback that forwards cat({i}, r) exactly once; plus exact IR facts for tail and cat. Exactly-once coverage of the box, zero extents included, follows by induction on N.",
        "bin/vcheck C19 (clang++ -Xclang -ast-dump=json -ast-dump-filter=nd_map; clang++ -O2 -emit-llvm | build/irdump for tail/cat)",
        ["clang 14 front end (AST of instantiations)", "std::function contract", "engine/rules/c19.py shape grammar"])
