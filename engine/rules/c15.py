"""C15  No undefined behaviour on the documented domain, in debug and release builds.

Decided clauses (everything else - heap bounds and overflow for runtime values - is stated as not decided):
  G-RET   every instantiated covfie function returns a value on every path, and nothing is read before it is
          written: clang's -Wreturn-type / -Wuninitialized families over a unit that explicitly instantiates the
          stack universe, parsed with and without NDEBUG (diagnostics located in lib/ are violations)
  U6      in every entry harness of the other checks, in both builds, no undef/poison value reaches a backend
          query argument, an output or a branch condition (the optimiser has proved the source path undefined:
          out-of-range constant subscripts, oversized shifts, reads of unwritten locals)
  U2      every read of a queried backend value stays inside that value (offset + size <= sizeof(value))
  U4      assertions are free of side effects (token rule over every assert argument and every `#ifndef NDEBUG`
          region), and the assertion-enabled and NDEBUG builds of every harness compute the same backend queries
          and the same outputs (term equality, or polynomial equality for arithmetic) - so both builds agree
"""
import os
import re

from .. import common, harness, ir
from ..common import Report, AnalysisBroken
from . import c02, c03, c04, c09, c10, c11, c13, c14, c17

WARN = ["-Wreturn-type", "-Wuninitialized", "-Wsometimes-uninitialized", "-Wconditional-uninitialized", "-Wuninitialized-const-reference"]


def diag_unit(tier):
    import random
    from .. import universe as U
    rng = random.Random(1)
    stacks, _, _ = c13.build_universe("quick", rng)
    code = c13.INCLUDES
    n = 0
    for s in stacks:
        code += "template struct %s;\n" % s.cxx
        code += "template class covfie::field<%s>;\n" % s.cxx
        code += "namespace d%d { using B = %s; void f(std::ostream & os, std::istream & is) { covfie::field<B> a; covfie::field<B> b(a); b = a; a = std::move(b); a.dump(os); covfie::field<B> c(is); covfie::field_view<B> v(c); typename covfie::field<B>::coordinate_t x{}; auto && r = v.at(x); (void)r; } }\n" % (n, s.cxx)
        n += 1
    for cid, x, y in c13.conversions("quick"):
        code += "namespace dc%d { void f() { covfie::field<%s> a; covfie::field<%s> b(a); (void)b; } }\n" % (n, x.cxx, y.cxx)
        n += 1
    return code, len(stacks)


def clang_diags(rep, tier):
    code, nst = diag_unit(tier)
    inc = common.mirror()
    d = os.path.join(common.scratch(), "c15")
    os.makedirs(d, exist_ok=True)
    src = os.path.join(d, "diag.cc")
    with open(src, "w") as fh:
        fh.write(code)
    total = 0
    for tag, flag in (("NDEBUG", "-DNDEBUG"), ("debug", "-UNDEBUG")):
        r = common.run(["clang++", "-std=c++20", "-fsyntax-only", "-Wno-everything", "-Wno-c++11-narrowing"] + WARN + [flag, "-ferror-limit=0",
                        "-I" + os.path.join(inc, "core"), "-I" + os.path.join(inc, "cpu"), "-I" + common.VERIF_INC, src])
        errs = [l for l in r.stderr.split("\n") if ": error:" in l]
        if errs:
            raise AnalysisBroken("C15 diagnostic unit does not parse with clang (%s): %s" % (tag, errs[0][:300]))
        seen = set()
        for l in r.stderr.split("\n"):
            m = re.match(r"^(\S+?):(\d+):\d+: warning: (.*) \[(-W[\w-]+)\]", l)
            if not m:
                continue
            f, ln, msg, w = m.groups()
            if "covfie/" not in f:
                continue
            key = (common.repo_rel(f), ln, w)
            if key in seen:
                continue
            seen.add(key)
            rep.fail("C15.G-RET", "%s:%s %s (%s)" % (key[0], ln, w, tag), "%s:%s" % (key[0], ln), "clang: %s" % msg)
        if not seen:
            rep.ok("C15.G-RET", "unit(%s): %d stacks explicitly instantiated, %d warnings" % (tag, nst, 0), sample={"build": tag, "stacks_instantiated": nst, "warning_classes": WARN})
        total += 1
    return nst


def ungate(t):
    while isinstance(t, tuple) and t[0] == 'sel' and t[3] == ('undef',):
        t = t[2]
    return t


def same(a, b):
    if a == b:
        return True
    if a is None or b is None:
        return False
    for ring, w in (('real', None), ('int', 64)):
        try:
            if ir.to_poly(a, ring, width=w) == ir.to_poly(b, ring, width=w):
                pa = ir.to_poly(a, ring, width=w)
                # only meaningful if the canonical form is more than a single opaque atom
                if not (len(pa.t) == 1 and list(pa.t.keys())[0] == (a,)):
                    return True
        except Exception:
            pass
    return False


def differ(a, b):
    """are two terms DEFINITELY different values: both have a canonical form (a polynomial over plain atoms, or a bit
    vector without unknown bits) and the forms differ.  Otherwise the comparison is undecided."""
    if a is None or b is None:
        return a is not b
    plain = lambda pl: all(isinstance(x, tuple) and x[0] in ('arg', 'ld', 'call', 'wr', 'cf') for mon in pl.t for x in mon)
    for ring, w in (('real', None), ('int', 64)):
        try:
            pa, pb = ir.to_poly(a, ring, width=w), ir.to_poly(b, ring, width=w)
            if plain(pa) and plain(pb) and pa.t and pb.t:
                return pa != pb
        except Exception:
            pass
    try:
        aw = {x: 64 for x in ir.atoms(a) | ir.atoms(b) if x[0] in ('arg', 'ld')}
        ba, bb = ir.to_bits(a, 64, aw), ir.to_bits(b, 64, aw)
        if not any(isinstance(x, tuple) and x[0] == 'top' for x in ba + bb):
            return ba != bb
    except Exception:
        pass
    return None


def verdict(a, b):
    """'same' | 'differ' | 'unknown' for the values a (NDEBUG build) and b (assertion-enabled build)"""
    if same(a, b):
        return 'same'
    d = differ(a, b)
    if d:
        return 'differ'
    if a is not None and b is not None and d is None:
        oc = ir.ord_compare(a, b)     # select trees over a few unsigned atoms: decided over all orderings
        if oc is not None:
            return 'same' if oc else 'differ'
    if a is not None and b is not None and ir.atoms(a) != ir.atoms(b):
        return 'differ'        # one build's value depends on something the other's does not
    return 'unknown'


def harness_sets(tier):
    sets = []
    sets.append(("c02", c02.own_harnesses(tier), ()))
    sets.append(("c10", c10.harnesses(tier), ()))
    sets.append(("c11", c11.harnesses("quick"), ()))
    sets.append(("c09", c09.harnesses(tier), ()))
    sets.append(("c03", c03.harnesses(tier), ()))
    sets.append(("c04", c04.harnesses(tier), ()))
    s1, s2, s3 = c14.harnesses(tier)
    sets.append(("c14", s1 + s2, ()))
    sets.append(("c14b", s3, ("-mbmi2",)))
    sets.append(("c17", c17.harnesses(tier), ()))
    return sets


def facts(h):
    s = ir.Sym(h.func)
    sinks = s.opaque_calls("_ZN5verif4sink")
    outs = s.outputs(h.out_index) if h.out else {}
    ret = s.retval()
    return s, sinks, outs, ret


def u6(rep, h, tag):
    inst = "%s/%s" % (h.name, tag)
    s, sinks, outs, ret = facts(h)
    if s.unknown:
        raise AnalysisBroken("C15 %s: unmodelled instruction %s" % (inst, s.unknown[0]["op"]))
    bad = None
    for c in sinks:
        for k, a in enumerate(c.args):
            if ir.has_undef(a):
                bad = (ir.where(c.inst), "backend query argument %d is undefined (undef/poison): %s" % (k, ir.show(a)[:160]))
        if ir.has_undef(c.cond):
            bad = (ir.where(c.inst), "whether the backend is queried depends on an undefined value")
    for off, t in outs.items():
        if ir.has_undef(ungate(t)):
            bad = ("harness " + h.name, "output at byte %d is undefined (undef/poison): %s" % (off, ir.show(ungate(t))[:160]))
    if ret is not None and ir.has_undef(ungate(ret)):
        bad = ("harness " + h.name, "result is undefined (undef/poison)")
    # reads of a queried value must stay inside it
    vsize = {}
    for c in sinks:
        m = re.search(r"arrayI(\w)Lm(\d+)EEE", c.name or "")
        if m:
            vsize[c.n] = {"f": 4, "d": 8, "i": 4, "j": 4, "m": 8, "l": 8}.get(m.group(1), 8) * int(m.group(2))
    oob = []

    def f(x):
        if x[0] == 'ld' and x[1][0] == 'ret' and isinstance(x[2], int) and x[1][1] in vsize:
            if x[2] < 0 or x[2] + x[3] > vsize[x[1][1]]:
                oob.append(x)
    for t in list(outs.values()) + [a for c in sinks for a in c.args]:
        ir.walk(t, f)
    if bad:
        rep.fail("C15.U6", inst, bad[0], bad[1])
    else:
        rep.ok("C15.U6", inst)
    if oob:
        rep.fail("C15.U2", inst, "harness " + h.name, "reads bytes %d..%d of a %d-byte backend value (out of bounds)" % (oob[0][2], oob[0][2] + oob[0][3], vsize[oob[0][1][1]]))
    else:
        rep.ok("C15.U2", inst)
    # in the assertion-enabled build, values are compared under the assumption that the assertions on the way held (their
    # conditions are part of the path and may appear inside the selects that compute a value)
    passed = []
    for c in s.calls:
        if c.name == "__assert_fail":
            # each alternative path to the failure ends with the negated assertion (the conjunct added last)
            def fail_lits(x):
                if isinstance(x, tuple) and x and x[0] == 'or':
                    return fail_lits(x[1]) + fail_lits(x[2])
                lits = [l for l in ir.flatten_and(x) if isinstance(l, tuple)]
                return lits[:1]
            passed += [q for l in fail_lits(c.cond) for q in ir.flatten_and(ir.mk_not(l)) if isinstance(q, tuple)]
    if passed:
        from .io_array import assume
        for c in sinks:
            c.args = [assume(a, passed) if isinstance(a, tuple) else a for a in c.args]
        outs = {k: assume(v, passed) for k, v in outs.items()}
        ret = assume(ret, passed) if ret is not None else None
    return sinks, outs, ret


ASSIGN = re.compile(r"(?<![=!<>+\-*/%&|^])=(?!=)|\+\+|--|\+=|-=|\*=|/=|%=|&=|\|=|\^=|<<=|>>=")


def assert_tokens(rep):
    from .c16 import strip_comments
    n = 0
    for sub in ("core", "cpu"):
        for root, _, files in os.walk(os.path.join(common.LIB, sub)):
            for fn in sorted(files):
                if not fn.endswith(".hpp"):
                    continue
                p = os.path.join(root, fn)
                rel = common.repo_rel(p)
                src = strip_comments(open(p, errors="replace").read())
                # assert arguments
                for m in re.finditer(r"\bassert\s*\(", src):
                    i = m.end()
                    depth = 1
                    while i < len(src) and depth:
                        depth += {"(": 1, ")": -1}.get(src[i], 0)
                        i += 1
                    arg = src[m.end():i - 1]
                    ln = src.count("\n", 0, m.start()) + 1
                    n += 1
                    inst = "%s:%d assert(%s)" % (rel, ln, " ".join(arg.split())[:60])
                    if ASSIGN.search(arg):
                        rep.fail("C15.U4-assert", inst, "%s:%d" % (rel, ln), "assertion argument modifies state; the NDEBUG build would compute something else")
                    else:
                        rep.ok("C15.U4-assert", inst)
                # #ifndef NDEBUG regions
                for m in re.finditer(r"#\s*ifndef\s+NDEBUG(.*?)#\s*endif", src, flags=re.S):
                    body = m.group(1)
                    ln = src.count("\n", 0, m.start()) + 1
                    n += 1
                    inst = "%s:%d #ifndef NDEBUG region" % (rel, ln)
                    stripped = re.sub(r"\bassert\s*\((?:[^()]|\([^()]*\))*\)\s*;", "", body)
                    stripped = re.sub(r"\bfor\s*\((?:[^()]|\((?:[^()]|\([^()]*\))*\))*\)", "", stripped)
                    stripped = re.sub(r"[{}\s]", "", stripped)
                    if stripped:
                        rep.fail("C15.U4-assert", inst, "%s:%d" % (rel, ln), "debug-only region contains code other than loops over assertions: %s" % stripped[:80])
                    else:
                        rep.ok("C15.U4-assert", inst)
    return n


def h_valueinit(T, N):
    from ..harness import Harness
    body = "  covfie::array::array<%s, %d> a{};\n  covfie::array::array<%s, %d> b = covfie::array::array<%s, %d>();\n  %s" % (
        T, N, T, N, T, N, " ".join("out[%d] = a[%d]; out[%d] = b[%d];" % (2 * k, k, 2 * k + 1, k) for k in range(N)))
    return Harness("valueinit_%s%d" % (T.replace("std::", ""), N), [], body, out=(T, 2 * N), meta={"T": T, "N": N})


def init_rules(rep, tier):
    """value-initialisation zero-fills: covfie::array::array{} and freshly allocated field storage"""
    from . import c01
    hs = [h_valueinit("float", 3), h_valueinit("std::size_t", 2), h_valueinit("double", 1)]
    al = [c01.h_alloc("float", 3), c01.h_alloc("double", 2)]
    st = []
    from ..harness import Harness
    st.append(Harness("strided_default", [], "  strided<cv::size3, array<cv::float3>>::owning_data_t o;\n  out[0] = o.get_configuration()[0]; out[1] = o.get_configuration()[1]; out[2] = o.get_configuration()[2]; out[3] = o.get_backend().get_configuration()[0];",
                      out=("std::size_t", 4), meta={}))
    harness.build(hs + al + st, "c15init")
    for h in hs + st:
        inst = h.name
        if h.error:
            loc, msg = harness.first_error(h)
            rep.fail("C15.init", inst, loc, "does not compile: " + msg)
            continue
        s = ir.Sym(h.func)
        outs = {k: ir.ungate(v) for k, v in s.outputs(h.out_index, 8 if "size_t" in h.out[0] or h.out[0] == "double" else 4, ir_ty(h.out[0])).items()}
        n = h.out[1]
        esz = 8 if "size_t" in h.out[0] or h.out[0] == "double" else 4
        bad = [k for k in range(n) if outs.get(esz * k) is None or ir.has_undef(outs[esz * k])]
        if bad:
            rep.fail("C15.init", inst, "lib/core/covfie/core/array.hpp", "value-initialised object has an indeterminate component (%d): value-initialisation no longer zero-fills" % bad[0])
        else:
            rep.ok("C15.init", inst)
    for h in al:
        inst = h.name
        if h.error:
            continue
        s = ir.Sym(h.func)
        news = [c for c in s.calls if c.name == "_Znam"]
        zero = [x for x in s.stores if isinstance(x.val, tuple) and x.val[0] == 'memset' and x.val[1] == ('ci', 0, 8) and news and x.base == ('ret', news[0].n)]
        if news and zero and zero[0].size == news[0].args[0]:
            rep.ok("C15.init", inst)
        else:
            rep.fail("C15.init", inst, "lib/core/covfie/core/backend/primitive/array.hpp", "freshly allocated field storage is not zero-filled: reading a cell before writing it reads indeterminate memory")


def ir_ty(ct):
    return {"float": "float", "double": "double"}.get(ct, "i64")


def io_buffer_rule(rep, tier):
    """every istream::read writes a constant number of bytes that fits the object it targets"""
    from . import io, io_array
    for hw, hr, fw, fr in io_array.facts(tier):
        inst = "array<%s,%d> reader" % (hr.meta["T"], hr.meta["M"])
        if hr.error or fr is None:
            continue
        s = fr["sym"]
        why = None
        for c in s.calls:
            if c.name != io.READ:
                continue
            dst, n = c.args[1], c.args[2]
            if n[0] != 'ci':
                # a length computed at run time: decided only when it provably fits - a heap buffer allocated with the very same
                # byte count, or a local buffer and a length that is one of finitely many constants; otherwise not decided
                verdict = None
                if dst[0] == 'ptr' and dst[1][0] == 'ret' and dst[2] == 0:
                    newc = next((x for x in s.calls if x.n == dst[1][1]), None)
                    if newc is not None and newc.name in ("_Znam", "_Znwm") and newc.args:
                        a = newc.args[0]
                        if a[0] == 'sel' and a[2] == ('ci', (1 << 64) - 1, 64):          # operator new[]'s overflow guard
                            a = a[3]
                        if a[0] == 'extractvalue' and a[1][0] in ('fn', 'call') and (a[1][1] or "").startswith("llvm.umul.with.overflow") and a[2] == 0:
                            a = ('op', 'mul', 'i64', a[1][3], a[1][4])
                        if ir.to_poly(a, 'int', width=64) == ir.to_poly(n, 'int', width=64):
                            verdict = "ok"
                elif dst[0] == 'ptr' and dst[1][0] == 'alloca' and isinstance(dst[2], int):
                    size = getattr(s, "alloca_size", {}).get(dst[1][1])
                    alts = ir.poly_cases(n, 'int', width=64)
                    if size is not None and alts:
                        consts = [list(p.t.values())[0] if p.t else 0 for _, p in alts if p.is_const()]
                        over = [c_ for c_ in consts if dst[2] + c_ > size]
                        if over:
                            why = "a read of up to %d bytes targets a %d-byte local object at offset %d" % (max(over), size, dst[2])
                            break
                        if len(consts) == len(alts):
                            verdict = "ok"
                if verdict is None and why is None:
                    # a length computed from words of the stream that the path has validated to be one of finitely many constants
                    # (the float width): enumerate them
                    from .io_array import assume
                    from .hilbert_curve import subst, const_fold
                    ws = sorted({a for a in ir.atoms(n) if a[0] == 'wr'}, key=repr)
                    cap = None
                    if dst[0] == 'ptr' and isinstance(dst[2], int):
                        if dst[1][0] == 'alloca':
                            cap = getattr(s, "alloca_size", {}).get(dst[1][1])
                        elif dst[1][0] == 'ret':
                            newc = next((x for x in s.calls if x.n == dst[1][1]), None)
                            if newc is not None and newc.name in ("_Znam", "_Znwm") and newc.args and newc.args[0][0] == 'ci':
                                cap = newc.args[0][1]
                    values = None
                    if ws and cap is not None and len(ws) <= 2:
                        ks = {}
                        ir.walk(c.cond, lambda x: ks.setdefault(x[2] if x[2] in ws else x[3], set()).add((x[3] if x[2] in ws else x[2])[1])
                                if x[0] == 'cmp' and x[1] == 'eq' and ((x[2] in ws and x[3][0] == 'ci') or (x[3] in ws and x[2][0] == 'ci')) else None)
                        if all(a in ks for a in ws):
                            none_of = [('not', ('cmp', 'eq', a, ('ci', k, a[4] * 8))) for a in ws for k in ks[a]]
                            if assume(c.cond, none_of) == ir.FALSE:      # the path requires each word to be one of its constants
                                import itertools
                                values = []
                                for combo in itertools.product(*[sorted(ks[a]) for a in ws]):
                                    m_ = {a: ('ci', k, a[4] * 8) for a, k in zip(ws, combo)}
                                    if assume(c.cond, [('cmp', 'eq', a, m_[a]) for a in ws]) == ir.FALSE:
                                        continue
                                    v = const_fold(subst(n, m_))
                                    values.append(v[1] if v[0] == 'ci' else None)
                    if values and all(v is not None for v in values):
                        over = [v for v in values if dst[2] + v > cap]
                        if over:
                            why = "a read of %d bytes (the length is computed from a word of the stream, which the reader accepts) targets a %d-byte buffer at offset %d" % (max(over), cap, dst[2])
                            break
                        verdict = "ok"
                if verdict is None:
                    rep.undecided("C15.U2-io %s: a read transfers a number of bytes computed at run time (%s) and the bound on it is not decided here" % (inst, ir.show(n)[:80]))
                continue
            if dst[0] == 'ptr' and dst[1][0] == 'alloca' and isinstance(dst[2], int):
                size = getattr(s, "alloca_size", {}).get(dst[1][1])
                if size is not None and dst[2] + n[1] > size:
                    why = "a read of %d bytes targets a %d-byte local object at offset %d" % (n[1], size, dst[2])
                    break
            if dst[0] == 'ptr' and dst[1][0] == 'ret':
                newc = next((x for x in s.calls if x.n == dst[1][1]), None)
                if newc is not None and newc.name in ("_Znam", "_Znwm") and newc.args and newc.args[0][0] == 'ci' and isinstance(dst[2], int) and dst[2] + n[1] > newc.args[0][1]:
                    why = "a read of %d bytes targets a %d-byte heap buffer" % (n[1], newc.args[0][1])
                    break
        if why:
            rep.fail("C15.U2-io", inst, "lib/core/covfie/core/backend/primitive/array.hpp", why)
        else:
            rep.ok("C15.U2-io", inst)


def declare(rep):
    rep.rule("C15.init", "value-initialisation zero-fills covfie::array::array, default strided extents and freshly allocated field storage", floor=5)
    rep.rule("C15.U2-io", "every stream read transfers a constant number of bytes that fits its destination object", floor=2)
    rep.rule("C15.G-RET", "clang -Wreturn-type/-Wuninitialized families silent over the explicitly instantiated stack universe (NDEBUG and debug parse)", floor=2)
    rep.rule("C15.U6", "no undef/poison reaches a backend query, an output or the query's guard in any harness (both builds)", floor=150)
    rep.rule("C15.U2", "reads of a queried backend value stay inside the value (both builds)", floor=150)
    rep.rule("C15.U4-assert", "assert arguments and #ifndef NDEBUG regions are free of side effects (token rule)", floor=8)
    rep.rule("C15.U4-equal", "assertion-enabled and NDEBUG builds perform the same backend queries and produce the same outputs", floor=80)


def run(rep, tier):
    nst = clang_diags(rep, tier)
    assert_tokens(rep)
    total = 0
    for tag, hs, extra in harness_sets(tier):
        res = {}
        for build, nd in (("NDEBUG", True), ("debug", False)):
            for h in hs:
                h.func = None
                h.error = None
            harness.build(hs, "c15_%s_%s" % (tag, build), extra=extra, ndebug=nd)
            for h in hs:
                if h.error:
                    loc, msg = harness.first_error(h)
                    rep.fail("C15.U6", "%s/%s" % (h.name, build), loc, "harness does not compile: " + msg)
                    continue
                res[(h.name, build)] = u6(rep, h, build)
                total += 1
        for h in hs:
            a, b = res.get((h.name, "NDEBUG")), res.get((h.name, "debug"))
            if a is None or b is None:
                continue
            (s1, o1, r1), (s2, o2, r2) = a, b
            why = None
            unknown = None
            if len(s1) != len(s2):
                why = "NDEBUG build makes %d backend queries, assertion-enabled build %d" % (len(s1), len(s2))
            else:
                for c1, c2 in zip(s1, s2):
                    vs = [verdict(x, y) for x, y in zip(c1.args, c2.args)]
                    if len(c1.args) != len(c2.args) or 'differ' in vs:
                        why = "backend query #%d differs between the builds: %s vs %s" % (c1.n, [ir.show(x)[:60] for x in c1.args], [ir.show(x)[:60] for x in c2.args])
                        break
                    if 'unknown' in vs:
                        unknown = "backend query #%d" % c1.n
            if why is None:
                if set(o1) != set(o2):
                    why = "different outputs are written"
                else:
                    for k in o1:
                        v = verdict(ungate(o1[k]), ungate(o2[k]))
                        if v == 'differ':
                            why = "output at byte %d differs between the builds: %s vs %s" % (k, ir.show(ungate(o1[k]))[:100], ir.show(ungate(o2[k]))[:100])
                            break
                        if v == 'unknown':
                            unknown = "output at byte %d" % k
                if why is None and not (r1 is None and r2 is None):
                    v = verdict(ungate(r1) if r1 else None, ungate(r2) if r2 else None)
                    if v == 'differ':
                        why = "result differs between the builds"
                    elif v == 'unknown':
                        unknown = "the result"
            if why:
                rep.fail("C15.U4-equal", h.name, "harness " + h.name, why)
            elif unknown:
                rep.undecided("C15.U4-equal %s: %s is computed by differently shaped code in the two builds (same inputs) and neither polynomial nor bit normal form decides whether the values agree" % (h.name, unknown))
            else:
                rep.ok("C15.U4-equal", h.name)
    init_rules(rep, tier)
    io_buffer_rule(rep, tier)
    # in-bounds access to heap storage needs the allocation premise of C01: every conversion sizes its buffer for the index range
    from . import c05, c14
    c05.declare(rep)
    for r in ("C05.g", "C05.f", "C05.a", "C05.cuda", "C05.b", "C05.b-hilbert", "C05.d", "C05.e"):
        rep.rules.pop(r, None)
    rep.rule("C15.pad", "Morton/Hilbert buffers built by a conversion are zero-initialised as a whole (the padding cells are read by dump and copy)", floor=4)
    c05.run_conversions(c14.only(rep), "quick")
    # copying and assigning storage: no transfer into a buffer that may be null or too small (rules of C12)
    from . import c12
    c12.declare(rep)
    for r in [r for r in rep.rules if r.startswith("C12.") and r not in ("C12.b", "C12.c")]:
        rep.rules.pop(r, None)
    c12.check_array(c14.only(rep), tier)
    rep.extra["harness_builds"] = total
    rep.extra["stacks_instantiated_for_diagnostics"] = nst
    return total


def check(tier):
    rep = Report("C15", tier, "other")
    declare(rep)
    run(rep, tier)
    rep.assumptions = ["NOT decided: heap bounds for runtime extents beyond the index-map reduction of C01; signed overflow and float->int conversion for runtime values; anything only execution under a sanitizer would show",
                       "clang's diagnostics are sound for the classes listed (missing return on some path, use before initialisation) on instantiated code"]
    return rep.finish(
        "Four static clauses: (1) clang's return/uninitialised diagnostics over a unit that explicitly instantiates every stack of the quick universe and its field operations, parsed with and without NDEBUG; "
        "(2) undef/poison tracking through the optimised IR of every entry harness of the other checks in both builds - LLVM turns provably undefined source paths (constant out-of-range subscripts, oversized shifts, reads of "
        "unwritten locals) into undef/poison, which must not reach a query, an output or its guard; (3) bounds of reads from queried values; (4) side-effect freedom of assertions plus term-level equality of the two builds' "
        "queries and outputs.",
        "bin/vcheck C15 (clang++ -fsyntax-only -Wreturn-type -Wuninitialized... ; clang++ -O2 -emit-llvm [-UNDEBUG] | build/irdump | engine/ir.py)",
        ["clang 14 diagnostics and -O2 pipeline", "engine/ir.py undef/poison propagation"])
