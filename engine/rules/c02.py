"""C02  A stack's lookup is the composition of its layers' maps.

Per-layer contracts over the opaque probe backend (E3, exact value identity for
routing layers), for N and M chosen independently:
  shuffle<perm>   one query; argument k is exactly c[perm[k]]; result routed
  dereference     one query at exactly c; result is the referenced value
  covariant_cast  every query at exactly c; output q is cast_T(value[q]) for q < M
  constant        no query; output q is configuration[q], independent of c
  identity        output k is c[k]
  field_view::at  vector form: storage queried at exactly c; variadic form: argument k is cast(arg k)
  composites      stacks of routing layers equal the composition of the above (spot check of the induction)
The arithmetic layers' contracts (clamp C10, backup C11, affine C09, linear C03,
nearest C04, strided/Morton C14) are evaluated here as well, on their quick
universes, so that C02 stands on its own.  Parametricity: each harness checks
that the query is made on the view built from the layer's own inner backend
(probe tag routed from the owning data), which together with the concept's
type-level interface gives composition by induction.
"""
import itertools

from .. import harness, ir
from ..common import Report, AnalysisBroken
from ..harness import Harness, STYPES
from . import c03, c04, c09, c10, c11, c14

T_DIR = "lib/core/covfie/core/backend/transformer/"
P_DIR = "lib/core/covfie/core/backend/primitive/"


def coords(N, ct, extra=()):
    return [(ct, ('c', k)) for k in range(N)] + list(extra) + [("std::uint64_t", 'tag')]


def outcode(M):
    return " ".join("out[%d] = r[%d];" % (q, q) for q in range(M))


def h_shuffle(N, M, S, perm, T="float"):
    ct = STYPES[S][0]
    args = coords(N, ct)
    body = """
  using P = verif::vprobe<%s, %d, %s, %d>;
  using B = shuffle<P, std::index_sequence<%s>>;
  B::owning_data_t o(B::configuration_t{}, P::owning_data_t(P::configuration_t{a%d}));
  B::non_owning_data_t v(o);
  auto r = v.at({%s});
  %s
""" % (ct, N, T, M, ", ".join(map(str, perm)), N, ", ".join("a%d" % k for k in range(N)), outcode(M))
    return Harness("shuffle_%s%d_%d_%s" % (S, N, M, "".join(map(str, perm))), args, body, out=(T, M),
                   meta={"layer": "shuffle", "N": N, "M": M, "S": S, "T": T, "perm": perm})


def h_deref(N, M, S, ref, T="float"):
    ct = STYPES[S][0]
    args = coords(N, ct)
    body = """
  using P = verif::%s<%s, %d, %s, %d>;
  using B = dereference<P>;
  B::owning_data_t o(B::configuration_t{}, P::owning_data_t(P::configuration_t{a%d}));
  B::non_owning_data_t v(o);
  auto r = v.at({%s});
  static_assert(!std::is_reference_v<decltype(v.at({%s}))>, "dereference must return a value");
  %s
""" % ("rprobe" if ref else "vprobe", ct, N, T, M, N, ", ".join("a%d" % k for k in range(N)), ", ".join("a%d" % k for k in range(N)), outcode(M))
    return Harness("deref_%s%d_%d_%s" % (S, N, M, "ref" if ref else "val"), args, body, out=(T, M),
                   meta={"layer": "dereference", "N": N, "M": M, "S": S, "T": T})


def h_cast(N, M, S, T, T2):
    ct = STYPES[S][0]
    args = coords(N, ct)
    body = """
  using P = verif::vprobe<%s, %d, %s, %d>;
  using B = covariant_cast<%s, P>;
  B::owning_data_t o(B::configuration_t{}, P::owning_data_t(P::configuration_t{a%d}));
  B::non_owning_data_t v(o);
  auto r = v.at({%s});
  static_assert(decltype(r)::dimensions == %d, "cast keeps the output dimensionality");
  %s
""" % (ct, N, T, M, STYPES[T2][0] if T2 in STYPES else T2, N, ", ".join("a%d" % k for k in range(N)), M, outcode(M))
    return Harness("cast_%s%d_%s%d_%s" % (S, N, T, M, T2), args, body, out=(STYPES[T2][0] if T2 in STYPES else T2, M),
                   meta={"layer": "covariant_cast", "N": N, "M": M, "S": S, "T": T, "T2": T2})


def h_constant(N, M, S, T):
    ct = STYPES[S][0]
    args = [(ct, ('c', k)) for k in range(N)] + [(T, ('m', q)) for q in range(M)]
    body = """
  using B = constant<verif::vd<%s, %d>, verif::vd<%s, %d>>;
  B::owning_data_t o(B::configuration_t{%s});
  B::non_owning_data_t v(o);
  auto r = v.at({%s});
  %s
""" % (ct, N, T, M, ", ".join("a%d" % (N + q) for q in range(M)), ", ".join("a%d" % k for k in range(N)), outcode(M))
    return Harness("constant_%s%d_%s%d" % (S, N, T, M), args, body, out=(T, M), meta={"layer": "constant", "N": N, "M": M, "S": S, "T": T})


def h_identity(N, S):
    ct = STYPES[S][0]
    args = [(ct, ('c', k)) for k in range(N)]
    body = """
  using B = identity<verif::vd<%s, %d>>;
  B::owning_data_t o;
  B::non_owning_data_t v(o);
  auto r = v.at({%s});
  %s
""" % (ct, N, ", ".join("a%d" % k for k in range(N)), outcode(N))
    return Harness("identity_%s%d" % (S, N), args, body, out=(ct, N), meta={"layer": "identity", "N": N, "M": N, "S": S, "T": S})


def h_view(N, M, S, form, argS):
    """field_view::at in its vector form and its variadic form (arguments of another arithmetic type)"""
    ct, act = STYPES[S][0], STYPES[argS][0]
    args = [(act if form == "variadic" else ct, ('c', k)) for k in range(N)] + [("std::uint64_t", 'tag')]
    call = "v.at(%s)" % ", ".join("a%d" % k for k in range(N)) if form == "variadic" else \
        "v.at(typename covfie::field<P>::coordinate_t{%s})" % ", ".join("a%d" % k for k in range(N))
    body = """
  using P = verif::vprobe<%s, %d, float, %d>;
  covfie::field<P> f(covfie::make_parameter_pack(P::configuration_t{a%d}));
  covfie::field_view<P> v(f);
  auto r = %s;
  %s
""" % (ct, N, M, N, call, outcode(M))
    return Harness("view_%s_%s%d_%d_%s" % (form, S, N, M, argS), args, body, out=("float", M),
                   meta={"layer": "field_view", "N": N, "M": M, "S": S, "T": "float", "form": form, "argS": argS})


def h_composite(kind, N, M):
    """stacks of routing layers; expected argument routing is computed by composing the layer maps"""
    p1 = tuple(list(range(1, N)) + [0])
    p2 = tuple(reversed(range(N)))
    args = coords(N, "float")
    if kind == "shuffle2":
        ty = "shuffle<shuffle<P, std::index_sequence<%s>>, std::index_sequence<%s>>" % (", ".join(map(str, p2)), ", ".join(map(str, p1)))
        cons = "B::owning_data_t o(std::monostate{}, B::backend_t::owning_data_t(std::monostate{}, P::owning_data_t(P::configuration_t{a%d})));" % N
        # outer applies p1: c'[k] = c[p1[k]]; inner applies p2: c''[k] = c'[p2[k]] = c[p1[p2[k]]]
        route = [p1[p2[k]] for k in range(N)]
    elif kind == "deref-cast-shuffle":
        ty = "dereference<covariant_cast<float, shuffle<P, std::index_sequence<%s>>>>" % ", ".join(map(str, p1))
        cons = ("B::owning_data_t o(std::monostate{}, B::backend_t::owning_data_t(std::monostate{}, "
                "B::backend_t::backend_t::owning_data_t(std::monostate{}, P::owning_data_t(P::configuration_t{a%d}))));" % N)
        route = list(p1)
    else:
        raise ValueError(kind)
    body = """
  using P = verif::vprobe<float, %d, float, %d>;
  using B = %s;
  %s
  B::non_owning_data_t v(o);
  auto r = v.at({%s});
  %s
""" % (N, M, ty, cons, ", ".join("a%d" % k for k in range(N)), outcode(M))
    return Harness("comp_%s_%d_%d" % (kind.replace("-", "_"), N, M), args, body, out=("float", M),
                   meta={"layer": "composite:" + kind, "N": N, "M": M, "S": "float", "T": "float", "route": route})


def declare(rep):
    rep.rule("C02.compile", "per-layer lookup harness compiles (N and M independent)", floor=30)
    rep.rule("C02.query", "number of backend queries, all unconditional, on the layer's own inner view, with N components", floor=30)
    rep.rule("C02.coord", "every query argument is exactly the coordinate component the layer's definition names", floor=30)
    rep.rule("C02.value", "every output component is exactly the value the layer's definition names (routing/cast, no arithmetic)", floor=30)


def tsize(T):
    return {"float": 4, "double": 8, "int": 4, "unsigned": 4, "size_t": 8, "std::size_t": 8}[T]


def llty(T):
    return {"float": "float", "double": "double", "int": "i32", "unsigned": "i32", "size_t": "i64", "std::size_t": "i64"}[T]


def check_routing(rep, h):
    m = h.meta
    layer, N, M = m["layer"], m["N"], m["M"]
    inst = h.name
    file = (P_DIR if layer in ("constant", "identity") else T_DIR) + layer.split(":")[0] + ".hpp" if not layer.startswith(("field_view", "composite")) else \
        ("lib/core/covfie/core/field_view.hpp" if layer == "field_view" else T_DIR + "shuffle.hpp")
    if h.error:
        loc, msg = harness.first_error(h)
        rep.fail("C02.compile", inst, loc, "does not compile: " + msg)
        return
    rep.ok("C02.compile", inst)
    s = ir.Sym(h.func)
    if s.unknown:
        raise AnalysisBroken("C02 %s: unmodelled instruction %s" % (inst, s.unknown[0]["op"]))
    sinks = s.opaque_calls("_ZN5verif4sink")
    others = [c for c in s.calls if c not in sinks]
    c_atoms = [h.atom(('c', k)) for k in range(N)]
    names = {a: "c%d" % k for k, a in enumerate(c_atoms)}
    T = m["T"]
    if layer in ("constant", "identity"):
        if sinks or others:
            rep.fail("C02.query", inst, file, "primitive backend makes calls: %s" % [c.dname for c in s.calls][:3])
            return
        rep.ok("C02.query", inst)
        osz = tsize(T)
        outs = s.outputs(h.out_index)
        for q in range(M):
            exp = h.atom(('m', q)) if layer == "constant" else h.atom(('c', q))
            got = outs.get(osz * q)
            qi = "%s out[%d]" % (inst, q)
            if got != exp:
                rep.fail("C02.value", qi, file, "output %d is %s, expected %s" % (q, ir.show(got, names) if got else "unwritten", "configuration[%d]" % q if layer == "constant" else "c%d" % q))
            else:
                rep.ok("C02.value", qi)
        return
    nq = M if layer == "covariant_cast" else 1
    if layer == "composite:deref-cast-shuffle":
        nq = M
    if not (1 <= len(sinks) <= nq) or others or any(c.cond != ir.TRUE for c in sinks):
        rep.fail("C02.query", inst, file, "expected %s unconditional backend quer%s, found %d (other calls %s)" % (
            "1.." + str(nq) if nq > 1 else "one", "ies" if nq > 1 else "y", len(sinks), [c.dname for c in others][:3]))
        return
    if any(len(c.args) != N + 1 or c.args[0] != h.atom('tag') for c in sinks):
        rep.fail("C02.query", inst, ir.where(sinks[0].inst), "query has %d components (expected %d) or is not made on the layer's own inner view" % (len(sinks[0].args) - 1, N))
        return
    rep.ok("C02.query", inst)
    # coordinate routing
    if layer == "shuffle":
        route = list(m["perm"])
    elif layer.startswith("composite"):
        route = m["route"]
    else:
        route = list(range(N))
    for c in sinks:
        for k in range(N):
            exp = c_atoms[route[k]]
            got = c.args[1 + k]
            if layer == "field_view" and m["form"] == "variadic" and m["argS"] != m["S"]:
                # argument k is a conversion of exactly arg k
                ok = got[0] == 'cast' and ir.strip_casts(got, ("zext", "sext", "trunc", "fpext", "fptrunc", "sitofp", "uitofp", "fptosi", "fptoui")) == exp
            else:
                ok = got == exp
            ki = "%s q%d arg%d" % (inst, c.n, k)
            if not ok:
                rep.fail("C02.coord", ki, ir.where(c.inst), "query argument %d is %s, expected %s" % (k, ir.show(got, names), names[exp]))
            else:
                rep.ok("C02.coord", ki)
    # value routing
    outT = m.get("T2", T) if layer == "covariant_cast" else ("float" if layer.startswith("composite") or layer == "field_view" else T)
    osz = tsize(outT)
    isz = tsize(T)
    outs = s.outputs(h.out_index)
    for q in range(M):
        got = outs.get(osz * q)
        qi = "%s out[%d]" % (inst, q)
        cands = [('ld', ('ret', c.n), isz * q, isz, llty(T), 0) for c in sinks]
        if got is None:
            rep.fail("C02.value", qi, file, "output %d never written" % q)
            continue
        if layer == "covariant_cast" and llty(outT) != llty(T):
            ok = got[0] == 'cast' and got[2] == llty(outT) and got[3] in cands
        else:
            ok = got in cands
        if not ok:
            rep.fail("C02.value", qi, file, "output %d is %s, expected %scomponent %d of the queried value" % (q, ir.show(got, names), "a cast of " if layer == "covariant_cast" else "", q))
        else:
            rep.ok("C02.value", qi, sample={"instance": qi, "value": ir.show(got)} if q == 1 and layer == "covariant_cast" else None)


def own_harnesses(tier):
    hs = []
    NM = [(1, 1), (1, 3), (2, 1), (2, 3), (3, 2), (3, 3), (4, 2)] if tier == "quick" else [(N, M) for N in (1, 2, 3, 4) for M in (1, 2, 3, 4)]
    for (N, M) in NM:
        perms = {tuple(list(range(1, N)) + [0]), tuple(reversed(range(N)))}
        if N >= 3:
            perms.add(tuple([1, 0] + list(range(2, N))))
        if tier == "thorough" and N <= 3:
            perms |= set(itertools.permutations(range(N)))
        for p in sorted(perms):
            hs.append(h_shuffle(N, M, "float" if (N + M) % 2 else "size_t", p))
        hs.append(h_deref(N, M, "size_t", True))
        hs.append(h_deref(N, M, "float", False))
        hs.append(h_cast(N, M, "size_t", "float", "double"))
        hs.append(h_cast(N, M, "float", "double", "float"))
        hs.append(h_cast(N, M, "int", "float", "float"))
        hs.append(h_constant(N, M, "float", "float"))
        hs.append(h_constant(N, M, "size_t", "double"))
        hs.append(h_view(N, M, "float", "vector", "float"))
        hs.append(h_view(N, M, "float", "variadic", "float"))
        hs.append(h_view(N, M, "float", "variadic", "int"))
        hs.append(h_view(N, M, "size_t", "variadic", "unsigned"))
        if N >= 2:
            hs.append(h_composite("shuffle2", N, M))
            hs.append(h_composite("deref-cast-shuffle", N, M))
    for N in (1, 2, 3, 4):
        for S in ("float", "int", "size_t", "double"):
            hs.append(h_identity(N, S))
    return hs


def run(rep, tier):
    hs = own_harnesses(tier)
    harness.build(hs, "c02")
    for h in hs:
        check_routing(rep, h)
    return hs


def param_lint(rep):
    from . import gparam
    hits, nfun = gparam.scan()
    rep.rule("C02.param", "no lookup or serialiser inspects the TYPE of its backend (the probe-based contracts transfer to every stack)", floor=30)
    if hits:
        f, ln, fn, seg = hits[0]
        raise AnalysisBroken("C02 parametricity: %s:%d `%s` inspects its backend's type (%s); contracts established over the opaque probe cannot be transferred to real stacks - re-confirm by reading" % (f, ln, fn, seg))
    for i in range(nfun):
        rep.ok("C02.param", "function body %d" % i)


def check(tier):
    rep = Report("C02", tier, "other")
    declare(rep)
    hs = run(rep, tier)
    # the arithmetic layers' contracts, on their quick universes
    sub = []
    for mod in (c10, c11, c09, c03, c04, c14):
        mod.declare(rep)
        sub += mod.run(rep, tier if (tier == "thorough" and mod is not c11) else "quick")
    # the same contracts over probes that mimic other backends' compile-time traits (configuration type, constructors):
    # a layer that special-cases the type of its backend shows the special case here
    for mimic in (1, 2):
        harness.GLOBAL_EXTRA = ["-DVERIF_PROBE_MIMIC=%d" % mimic]
        try:
            run(rep, "quick")
            for mod in (c10, c11, c09, c03, c04):
                mod.run(rep, "quick")
        finally:
            harness.GLOBAL_EXTRA = []
    if not rep.violations:
        param_lint(rep)       # exit 2 if a lookup/serialiser inspects its backend's type and no contract caught a difference
    else:
        rep.rule("C02.param", "no lookup or serialiser inspects the TYPE of its backend (the probe-based contracts transfer to every stack)", floor=0)
    rep.assumptions = ["composition by induction: each layer touches its backend only through the concept interface (type-checked) and, per harness, queries the view built from its own inner backend",
                       "the innermost backends (array: C01; probe: opaque) are modelled by the probe's contract 'one query per lookup with the given coordinate'"]
    rep.extra["own_instantiations"] = len(hs)
    rep.extra["arithmetic_layer_instantiations"] = len(sub)
    return rep.finish(
        "Per-layer contracts over an opaque probe backend, decided from optimised loop-free IR as exact value identities (which coordinate component reaches which query argument, "
        "which queried component reaches which output, through which cast), for N and M chosen independently (N != M included), plus both forms of field_view::at, two composite "
        "stacks as a check of the induction step, and the arithmetic layers' contracts (clamp, backup, affine, linear, nearest, row-major, Morton) on their quick universes. "
        "Because every layer is analysed over an opaque backend, each verdict holds under every conforming stack beneath it.",
        "bin/vcheck C02 (clang++ -O2 -emit-llvm | build/irdump | engine/ir.py)",
        ["clang 14 -O2 IR faithful to source", "engine/ir.py term builder", "probe backend contract (engine/include/verif/probe.hpp)"])
