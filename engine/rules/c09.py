"""C09  The affine layer maps x to Ax+t and affine transforms compose as functions.

E3 / D-poly (real-ring identities, "within rounding" in the property's words).
 * affine * vector: row i == sum_j A[i][j]*v_j + A[i][N]
 * affine * affine: == (A1*A2 | A1*t2 + t1), i.e. the right factor is applied first
 * translation / scaling / identity: entries are exactly {0, 1, argument} at the textbook positions
 * layer lookup: one backend query at (A*c + t), result routed unchanged
Products of more than two transforms follow from associativity of the verified binary product.
"""
from fractions import Fraction

from .. import harness, ir
from ..common import Report, AnalysisBroken
from ..harness import Harness, STYPES

ALG = "lib/core/covfie/core/algebra/affine.hpp"
LAYER = "lib/core/covfie/core/backend/transformer/affine.hpp"


def mat_args(prefix, N, T):
    return [(T, (prefix, i, j)) for i in range(N) for j in range(N + 1)]


def mat_build(var, first, N, T):
    rows = []
    k = first
    for i in range(N):
        rows.append("covfie::array::array<%s, %d>{%s}" % (T, N + 1, ", ".join("a%d" % (k + j) for j in range(N + 1))))
        k += N + 1
    arr = "covfie::array::array<covfie::array::array<%s, %d>, %d>" % (T, N + 1, N)
    if N == 1:
        init = "%s arr_%s(%s);" % (arr, var, rows[0])
    else:
        init = "%s arr_%s(%s);" % (arr, var, ", ".join(rows))
    return "%s covfie::algebra::affine<%d, %s> %s{covfie::algebra::matrix<%d, %d, %s>(arr_%s)};" % (init, N, T, var, N, N + 1, T, var)


def h_apply(N, T):
    args = mat_args('A', N, T) + [(T, ('v', j)) for j in range(N)]
    nv = N * (N + 1)
    body = "  %s\n  covfie::algebra::vector<%d, %s> v(covfie::array::array<%s, %d>{%s});\n  auto r = A * v;\n  %s" % (
        mat_build("A", 0, N, T), N, T, T, N, ", ".join("a%d" % (nv + j) for j in range(N)), " ".join("out[%d] = r(%d);" % (i, i) for i in range(N)))
    return Harness("aff_apply_%s_%d" % (T, N), args, body, out=(T, N), meta={"kind": "apply", "N": N, "T": T})


def h_compose(N, T):
    args = mat_args('A', N, T) + mat_args('B', N, T)
    nv = N * (N + 1)
    body = "  %s\n  %s\n  covfie::algebra::affine<%d, %s> r = A * B;\n  %s" % (
        mat_build("A", 0, N, T), mat_build("B", nv, N, T), N, T,
        " ".join("out[%d] = r(%d, %d);" % (i * (N + 1) + j, i, j) for i in range(N) for j in range(N + 1)))
    return Harness("aff_compose_%s_%d" % (T, N), args, body, out=(T, nv), meta={"kind": "compose", "N": N, "T": T})


# argument lists of mixed arithmetic types (C09.factory-mixed): each entry must be the ONE direct conversion of its own
# argument to T - not a conversion through some type computed from the whole argument list
MIXED = {1: [("int",)], 2: [("int", "unsigned"), ("int", "float"), ("std::int64_t", "double")],
         3: [("int", "unsigned", "std::uint64_t"), ("float", "int", "double")],
         4: [("int", "unsigned", "std::int64_t", "float")]}
DIRECT = {"int": "sitofp", "std::int64_t": "sitofp", "unsigned": "uitofp", "std::uint64_t": "uitofp"}


WIDTH = {"int": 32, "unsigned": 32, "std::int64_t": 64, "std::uint64_t": 64}
SAMPLES = {"int": [0, 1, -1, 7, -3, 16777217, -16777217, 2147483647, -2147483648, 123456789],
           "unsigned": [0, 1, 7, 16777217, 2147483648, 4294967295, 4294967167],
           "std::int64_t": [0, 1, -1, -3, 16777217, 9007199254740993, -9007199254740993, 2 ** 63 - 1, -2 ** 63],
           "std::uint64_t": [0, 1, 16777217, 9007199254740993, 2 ** 63, 2 ** 64 - 1, 2 ** 64 - 1025],
           "float": [0.0, 1.0, -1.5, 0.1, 16777216.0, 3.4028234663852886e38, 1e-45],
           "double": [0.0, 1.0, -1.5, 0.1, 16777217.0, 1e300, 1e-300, 0.30000000000000004]}


def _f32(x):
    import struct
    try:
        return struct.unpack("f", struct.pack("f", x))[0]
    except OverflowError:
        return float("inf") if x > 0 else float("-inf")


def cast_chain_eval(t, v, at):
    """Constant evaluation of a pure chain of conversions applied to the one argument (value v of C++ type `at`);
    None if the term is anything else.  Integers are carried as (bit pattern, width)."""
    chain = []
    while isinstance(t, tuple) and t[0] == 'cast':
        chain.append((t[1], t[2]))
        t = t[3]
    if not (isinstance(t, tuple) and t[0] == 'arg'):
        return None
    cur = ('i', v % (1 << WIDTH[at]), WIDTH[at]) if at in WIDTH else ('f', _f32(v) if at == "float" else float(v))
    for op, ty in reversed(chain):
        w = int(ty[1:]) if ty[:1] == 'i' and ty[1:].isdigit() else None
        if cur[0] == 'i':
            _, b, cw = cur
            sv = b - (1 << cw) if b >> (cw - 1) else b
            if op == "sext" and w:
                cur = ('i', sv % (1 << w), w)
            elif op == "zext" and w:
                cur = ('i', b, w)
            elif op == "trunc" and w:
                cur = ('i', b % (1 << w), w)
            elif op in ("sitofp", "uitofp"):
                x = float(sv if op == "sitofp" else b) if ty == "double" else None
                if ty == "float":
                    # one rounding, from the exact integer (float(int) rounds to double first: do it exactly)
                    from fractions import Fraction
                    n = sv if op == "sitofp" else b
                    x = _round_int_f32(n)
                if x is None:
                    return None
                cur = ('f', x)
            else:
                return None
        else:
            x = cur[1]
            if op == "fpext":
                cur = ('f', x)
            elif op == "fptrunc" and ty == "float":
                cur = ('f', _f32(x))
            elif op in ("fptosi", "fptoui") and w:
                import math
                if math.isinf(x) or math.isnan(x):
                    return None
                n = int(x)
                lo, hi = (-(1 << (w - 1)), (1 << (w - 1)) - 1) if op == "fptosi" else (0, (1 << w) - 1)
                if not lo <= n <= hi:
                    return None      # undefined conversion: no verdict from this sample
                cur = ('i', n % (1 << w), w)
            else:
                return None
    return cur[1] if cur[0] == 'f' else None


def _round_int_f32(n):
    """Round the exact integer n to binary32, ties to even (no detour through binary64)."""
    if n == 0:
        return 0.0
    sgn, m = (-1, -n) if n < 0 else (1, n)
    e = m.bit_length() - 24
    if e <= 0:
        return float(sgn * m)
    q, r = m >> e, m & ((1 << e) - 1)
    half = 1 << (e - 1)
    if r > half or (r == half and (q & 1)):
        q += 1
    return float(sgn * (q << e))


def h_factory(N, T, which, argtypes=None):
    if argtypes:
        args = [(t, ('x', j)) for j, t in enumerate(argtypes)]
        call = "covfie::algebra::affine<%d, %s>::%s(%s)" % (N, T, which, ", ".join("a%d" % j for j in range(N)))
        body = "  covfie::algebra::affine<%d, %s> r = %s;\n  %s" % (
            N, T, call, " ".join("out[%d] = r(%d, %d);" % (i * (N + 1) + j, i, j) for i in range(N) for j in range(N + 1)))
        return Harness("aff_%s_%s_%d_mix%s" % (which, T, N, "_".join(t.replace("std::", "").replace("_t", "") for t in argtypes)), args, body,
                       out=(T, N * (N + 1)), meta={"kind": which, "N": N, "T": T, "argtypes": argtypes})
    args = [(T, ('x', j)) for j in range(N)] if which != "identity" else []
    call = {"translation": "covfie::algebra::affine<%d, %s>::translation(%s)" % (N, T, ", ".join("a%d" % j for j in range(N))),
            "scaling": "covfie::algebra::affine<%d, %s>::scaling(%s)" % (N, T, ", ".join("a%d" % j for j in range(N))),
            "identity": "covfie::algebra::matrix<%d, %d, %s>::identity()" % (N, N + 1, T)}[which]
    body = "  covfie::algebra::affine<%d, %s> r = %s;\n  %s" % (
        N, T, call, " ".join("out[%d] = r(%d, %d);" % (i * (N + 1) + j, i, j) for i in range(N) for j in range(N + 1)))
    return Harness("aff_%s_%s_%d" % (which, T, N), args, body, out=(T, N * (N + 1)), meta={"kind": which, "N": N, "T": T})


def h_layer(N, T, M, route="direct"):
    args = mat_args('A', N, T) + [(T, ('c', j)) for j in range(N)] + [("std::uint64_t", 'tag')]
    nv = N * (N + 1)
    body = """  %s
  %s
  B::non_owning_data_t v(o);
  auto r = v.at({%s});
  %s""" % (mat_build("A", 0, N, T), harness.construct(route, "affine", "%s, %d, float, %d" % (T, N, M), "A", "a%d" % (nv + N)),
           ", ".join("a%d" % (nv + j) for j in range(N)), " ".join("out[%d] = r[%d];" % (q, q) for q in range(M)))
    return Harness("aff_layer_%s_%d_%d_%s" % (T, N, M, route), args, body, out=("float", M), meta={"kind": "layer", "N": N, "T": T, "M": M, "route": route})


def P(a):
    return ir.Poly.atom(a)


def poly_mismatch(term, exp, names):
    """None if the term equals the expected polynomial in every case of its configuration-dependent branches, else text"""
    cases = ir.poly_cases(term, 'real')
    if cases is None:
        got = ir.to_poly(term, 'real')
        return None if got == exp else got.show(names)
    for subst, got in cases:
        e = ir.poly_subst(exp, subst)
        if got != e:
            when = " when " + ", ".join("%s = %s" % (ir.show(a, names), ir.show(b, names)) for a, b in subst.items()) if subst else (" on one branch" if len(cases) > 1 else "")
            return got.show(names) + when
    return None


def declare(rep):
    rep.rule("C09.compile", "algebra / layer harness compiles", floor=10)
    rep.rule("C09.apply", "affine*vector row i == sum_j A[i][j]*v_j + A[i][N] (real-ring polynomial identity)", floor=4)
    rep.rule("C09.compose", "affine*affine == (A1*A2 | A1*t2 + t1): right factor first", floor=8)
    rep.rule("C09.factory", "translation/scaling/identity entries are exactly 0, 1 or the argument at the textbook position", floor=12)
    rep.rule("C09.layer", "layer lookup: one backend query at (A*c+t)_i per component, result routed unchanged", floor=4)
    rep.rule("C09.precision", "the whole computation stays in the transform's scalar type: no fptrunc/fpext between inputs and results", floor=10)


def harnesses(tier):
    Ns = (1, 2, 3) if tier == "quick" else (1, 2, 3, 4)
    Ts = ("float", "double")
    hs = []
    for N in Ns:
        for T in Ts:
            hs += [h_apply(N, T), h_compose(N, T), h_factory(N, T, "translation"), h_factory(N, T, "scaling"), h_factory(N, T, "identity"), h_layer(N, T, (N % 4) + 1)] + ([h_layer(N, T, 1)] if N > 1 else [])
    for N in Ns:
        for k, at in enumerate(MIXED[N]):
            for T in (Ts if tier != "quick" else (Ts[(N + k) % 2],)):
                hs += [h_factory(N, T, "translation", at), h_factory(N, T, "scaling", at)]
    # the layer contract along every other construction route (quick: one dimension per route)
    for i, route in enumerate(harness.ROUTES[1:]):
        for N in (Ns if tier != "quick" else (2 + i % 2,)):
            hs.append(h_layer(N, "float" if (i + N) % 2 else "double", (N % 4) + 1, route))
    return hs


def run(rep, tier, hs=None):
    hs = hs or harnesses(tier)
    harness.build(hs, "c09", per_tu=8)
    for h in hs:
        N, T, kind = h.meta["N"], h.meta["T"], h.meta["kind"]
        tsz = 4 if T == "float" else 8
        inst = "%s<%d,%s>" % (kind, N, T) + ("(" + ",".join(h.meta["argtypes"]) + ")" if h.meta.get("argtypes") else "") + (" via " + h.meta["route"] if h.meta.get("route", "direct") != "direct" else "")
        if h.error:
            loc, msg = harness.first_error(h)
            rep.fail("C09.compile", inst, loc, "does not compile: " + msg)
            continue
        rep.ok("C09.compile", inst)
        s = ir.Sym(h.func)
        if s.unknown:
            raise AnalysisBroken("C09 %s: unmodelled instruction %s at %s" % (inst, s.unknown[0]["op"], ir.where(s.unknown[0])))
        outs = s.outputs(h.out_index, *( (4, 'float') if h.meta['kind'] == 'layer' else (tsz, T)))
        pterms = [c.args[1 + i] for c in s.opaque_calls("_ZN5verif4sink") for i in range(len(c.args) - 1)] if kind == "layer" else list(outs.values())
        pc = [c for t in pterms for c in ir.fp_casts(t)] if not h.meta.get("argtypes") else []
        if h.meta.get("argtypes"):
            pass
        elif pc:
            rep.fail("C09.precision", inst, LAYER if kind == "layer" else ALG, "computation declared in %s changes floating-point precision on the way: %s" % (T, ir.show(pc[0][0])[:160]))
        else:
            rep.ok("C09.precision", inst)
        names = {('arg', i): ("%s%s" % (r[0], "".join(map(str, r[1:]))) if isinstance(r, tuple) else r) for i, (_, r) in enumerate(h.args)}
        A = lambda i, j: P(h.atom(('A', i, j)))
        if kind == "apply":
            for i in range(N):
                exp = A(i, N)
                for j in range(N):
                    exp = exp + A(i, j) * P(h.atom(('v', j)))
                bad = poly_mismatch(outs.get(tsz * i, ('undef',)), exp, names)
                ii = "%s row %d" % (inst, i)
                if bad is not None:
                    rep.fail("C09.apply", ii, ALG, "row %d of A*v is %s, expected %s" % (i, bad, exp.show(names)))
                else:
                    rep.ok("C09.apply", ii, sample={"instance": ii, "polynomial": exp.show(names)} if N == 2 and i == 0 else None)
        elif kind == "compose":
            B = lambda i, j: P(h.atom(('B', i, j)))
            for i in range(N):
                for j in range(N + 1):
                    exp = ir.Poly({})
                    for k in range(N):
                        exp = exp + A(i, k) * B(k, j)
                    if j == N:
                        exp = exp + A(i, N)
                    bad = poly_mismatch(outs.get(tsz * (i * (N + 1) + j), ('undef',)), exp, names)
                    ii = "%s entry (%d,%d)" % (inst, i, j)
                    if bad is not None:
                        rep.fail("C09.compose", ii, ALG, "entry (%d,%d) of A*B is %s, expected %s" % (i, j, bad, exp.show(names)))
                    else:
                        rep.ok("C09.compose", ii)
        elif kind in ("translation", "scaling", "identity"):
            for i in range(N):
                for j in range(N + 1):
                    t = outs.get(tsz * (i * (N + 1) + j))
                    if (kind == "translation" and j == N) or (kind == "scaling" and i == j):
                        exp = h.atom(('x', i))
                        at = (h.meta.get("argtypes") or [T] * N)[i]
                        if at != T:
                            exp = ('cast', DIRECT.get(at) or ("fpext" if (at, T) == ("float", "double") else "fptrunc"), T, exp)
                    else:
                        exp = ('cf', 1.0 if i == j else 0.0, T)
                    ii = "%s entry (%d,%d)" % (inst, i, j)
                    if t != exp and h.meta.get("argtypes") and exp[0] == 'cast':
                        # another chain of conversions of the same argument: compare the two by constant evaluation over
                        # boundary values of the argument type; a difference is a violation with its witness, agreement
                        # on every sample is no proof (undecided)
                        at = h.meta["argtypes"][i]
                        base = t
                        while isinstance(base, tuple) and base[0] == 'cast':
                            base = base[3]
                        got = "entry (%d,%d) is %s, expected the direct conversion %s" % (i, j, ir.show(t, names) if t else "unwritten", ir.show(exp, names))
                        if t is None or (isinstance(base, tuple) and base[0] == 'arg' and base != h.atom(('x', i))):
                            rep.fail("C09.factory", ii, ALG, got)
                            continue
                        vals = [(v, cast_chain_eval(t, v, at), cast_chain_eval(exp, v, at)) for v in SAMPLES[at]]
                        wit = [(v, a, b) for v, a, b in vals if a is not None and b is not None and a != b]
                        if wit:
                            rep.fail("C09.factory", ii, ALG, got + ": for argument %s = %r the entry is %r instead of %r" % (at, wit[0][0], wit[0][1], wit[0][2]))
                        else:
                            rep.undecided("C09.factory %s: %s; boundary samples do not separate the two" % (ii, got))
                    elif t != exp:
                        rep.fail("C09.factory", ii, ALG, "entry (%d,%d) is %s, expected %s" % (i, j, ir.show(t, names) if t else "unwritten", ir.show(exp, names)))
                    else:
                        rep.ok("C09.factory", ii)
        else:
            M = h.meta["M"]
            sinks = s.opaque_calls("_ZN5verif4sink")
            others = [c for c in s.calls if c not in sinks]
            cases = ir.merge_calls(sinks) if sinks else None
            if not cases or others or any(len(c.args) != N + 1 or c.args[0] != h.atom('tag') for c in sinks):
                rep.fail("C09.layer", inst, LAYER, "expected exactly one backend query with %d components on the view's backend on every path" % N)
                continue
            good = True
            for assign, subst0, call in cases:
                for i in range(N):
                    exp = A(i, N)
                    for j in range(N):
                        exp = exp + A(i, j) * P(h.atom(('c', j)))
                    bad = poly_mismatch(ir._resolve(call.args[1 + i], assign, subst0, {}), ir.poly_subst(exp, subst0), names)
                    if bad is not None:
                        when = " when " + ", ".join("%s = %s" % (ir.show(a, names), ir.show(b, names)) for a, b in subst0.items()) if subst0 else ""
                        rep.fail("C09.layer", "%s arg %d" % (inst, i), ir.where(call.inst), "backend queried at component %d = %s%s, expected %s" % (i, bad, when, exp.show(names)))
                        good = False
                for q in range(M):
                    if ir._resolve(outs.get(4 * q, ('undef',)), assign, {}, {}) != ('ld', ('ret', call.n), 4 * q, 4, 'float', 0):
                        rep.fail("C09.layer", "%s out[%d]" % (inst, q), LAYER, "result component %d is not the queried value's component" % q)
                        good = False
                if not good:
                    break
            if good:
                rep.ok("C09.layer", inst)
    return hs


def check(tier):
    rep = Report("C09", tier, "other")
    declare(rep)
    hs = run(rep, tier)
    rep.assumptions = ["real-ring identity: floating-point rounding of the individual operations is not decided", "products of up to four transforms follow from associativity of the verified binary product"]
    rep.extra["instantiations"] = [h.name for h in hs]
    return rep.finish(
        "The optimised loop-free IR of affine*vector, affine*affine, the translation/scaling/identity factories and the affine layer's lookup (over the opaque probe) is canonicalised "
        "into polynomials over the matrix entries and vector components and compared with the textbook formulas as ring identities; factory entries are compared exactly.",
        "bin/vcheck C09 (clang++ -O2 -emit-llvm | build/irdump | engine/ir.py to_poly)",
        ["clang 14 -O2 IR faithful to source (-ffp-contract=off)", "engine/ir.py polynomial normal form"])
