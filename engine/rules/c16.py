"""C16  Concurrent lookups are race-free and deterministic.

Effect analysis of optimised IR (E3).  Every layer's lookup is compiled in a
harness that receives the VIEW BY POINTER (shared between threads in the
property's quantifier) plus scalar coordinates.  Per function, over every
instruction (no loop-freeness needed):
  * every store / memcpy / memset destination derives from an alloca or from the harness's own result slot
    - never from the view, from memory reached through it, or from a global
  * no atomic, volatile or fence instruction
  * every global that is read is a constant; none is written; none is thread-local
  * every call is the opaque backend sink, a pure intrinsic, a whitelisted pure libm function, or
    __assert_fail (debug build, noreturn); any other external callee is a violation
Readers that only read memory nobody writes cannot race under any schedule, and a function of
(view, coordinate) alone is deterministic.  Writers to distinct coordinates touch disjoint bytes
by injectivity of the index maps (C01/C14) and the element stride of the array backend (C01.d).
Library-wide: no keyword `mutable`, `const_cast`, `volatile`, `thread_local`, `std::atomic`, and no
namespace-scope or static-local variable that is not constexpr/const (token scan of lib/core, lib/cpu).
"""
import os
import re

from .. import common, harness, ir
from ..common import Report, AnalysisBroken
from ..harness import Harness, STYPES

SINK = "_ZN5verif4sink"
OK_CALLS = ("__assert_fail",)


def h_layer(name, btype, N, S, M, T, ptype, real=False):
    """lookup through a view passed by pointer"""
    ct = STYPES[S][0]
    args = [("const void *", 'view')] + [(ct, ('c', k)) for k in range(N)]
    pre = ("  using P = %s;\n" % ptype) if ptype else ""
    body = pre + """  using B = %s;
  const B::non_owning_data_t * v = static_cast<const B::non_owning_data_t *>(a0);
  auto && r = v->at(%s);
  %s
""" % (btype, ("{%s}" % ", ".join("a%d" % (1 + k) for k in range(N))) if N > 1 or not real else "{a1}",
       " ".join("out[%d] = r[%d];" % (q, q) for q in range(M)))
    return Harness("eff_" + name, args, body, out=(T, M), meta={"name": name, "B": btype})


def h_fieldview(name, btype, N, S, M, T, variadic):
    ct = STYPES[S][0]
    args = [("const void *", 'view')] + [(ct, ('c', k)) for k in range(N)]
    call = "v->at(%s)" % ", ".join("a%d" % (1 + k) for k in range(N)) if variadic else \
        "v->at(typename covfie::field_view<B>::coordinate_t{%s})" % ", ".join("a%d" % (1 + k) for k in range(N))
    body = """  using B = %s;
  const covfie::field_view<B> * v = static_cast<const covfie::field_view<B> *>(a0);
  auto && r = %s;
  %s
""" % (btype, call, " ".join("out[%d] = r[%d];" % (q, q) for q in range(M)))
    return Harness("eff_" + name, args, body, out=(T, M), meta={"name": name, "B": btype})


def h_mkview(name, btype, ptype):
    """a thread takes its own view of a field shared (const) between threads"""
    pre = ("  using P = %s;\n" % ptype) if ptype else ""
    body = pre + """  using B = %s;
  static_assert(sizeof(B::non_owning_data_t) <= 512);
  const B::owning_data_t & o = *static_cast<const B::owning_data_t *>(a0);
  new (out) B::non_owning_data_t(o);
""" % btype
    return Harness("eff_mkview_" + name, [("const void *", 'field')], body, out=("unsigned char", 512), meta={"name": "view-of " + name, "B": btype, "kind": "mkview"})


def h_mkfieldview(name, btype):
    body = """  using B = %s;
  static_assert(sizeof(covfie::field_view<B>) <= 512);
  const covfie::field<B> & f = *static_cast<const covfie::field<B> *>(a0);
  new (out) covfie::field_view<B>(f);
""" % btype
    return Harness("eff_mkview_" + name, [("const void *", 'field')], body, out=("unsigned char", 512), meta={"name": "field_view-of " + name, "B": btype, "kind": "mkview"})


def h_static(name, expr, args, ret="std::size_t"):
    return Harness("eff_" + name, args, "  return %s;" % expr, ret=ret, meta={"name": name, "B": expr})


def universe(tier):
    hs = universe_lookups(tier)
    # every thread first takes a view of the shared field: constructing a view from a const field must not write to the field either
    seen = set()
    for h in list(hs):
        m = re.search(r"using P = ([^;]+);", h.body)
        B = h.meta["B"]
        if h.name.startswith("eff_view_") or "calculate_index" in B or (B, m and m.group(1)) in seen:
            continue
        seen.add((B, m and m.group(1)))
        hs.append(h_mkview(h.meta["name"], B, m.group(1) if m else None))
    hs.append(h_mkfieldview("affine_linear_strided3", "affine<linear<strided<cv::size3, array<cv::float3>>>>"))
    hs.append(h_mkfieldview("nn_morton2", "nearest_neighbour<morton<cv::size2, array<cv::double2>, false>>"))
    return hs


def universe_lookups(tier):
    hs = []
    A3 = "array<cv::float3>"
    A2d = "array<cv::double2>"
    Ns = (1, 2, 3) if tier == "quick" else (1, 2, 3, 4)
    for N in Ns:
        vp = "verif::vprobe<float, %d, float, 2>" % N
        ip = "verif::vprobe<std::size_t, %d, float, 2>" % N
        ap = "verif::aprobe<float, 2>"
        hs.append(h_layer("clamp_%d" % N, "clamp<P>", N, "float", 2, "float", vp))
        hs.append(h_layer("backup_%d" % N, "backup<P>", N, "float", 2, "float", vp))
        hs.append(h_layer("affine_%d" % N, "affine<P>", N, "float", 2, "float", vp))
        hs.append(h_layer("shuffle_%d" % N, "shuffle<P, std::make_index_sequence<%d>>" % N, N, "float", 2, "float", vp))
        hs.append(h_layer("cast_%d" % N, "covariant_cast<double, P>", N, "float", 2, "double", vp))
        hs.append(h_layer("deref_%d" % N, "dereference<P>", N, "float", 2, "float", vp))
        hs.append(h_layer("linear_%d" % N, "linear<P, verif::vd<float, %d>>" % N, N, "float", 2, "float", ip))
        hs.append(h_layer("nearest_%d" % N, "nearest_neighbour<P, verif::vd<double, %d>>" % N, N, "double", 2, "float", ip))
        hs.append(h_layer("strided_%d" % N, "strided<verif::vd<std::size_t, %d>, P>" % N, N, "size_t", 2, "float", ap))
        hs.append(h_layer("morton_%d" % N, "morton<verif::vd<std::size_t, %d>, P, false>" % N, N, "size_t", 2, "float", ap))
        hs.append(h_layer("constant_%d" % N, "constant<verif::vd<float, %d>, cv::float2>" % N, N, "float", 2, "float", None))
        hs.append(h_layer("identity_%d" % N, "identity<verif::vd<float, %d>>" % N, N, "float", N, "float", None))
    hs.append(h_layer("hilbert", "hilbert<cv::size2, P>", 2, "size_t", 2, "float", "verif::aprobe<float, 2>"))
    if 4 not in Ns:
        hs.append(h_layer("linear_4", "linear<P, verif::vd<float, 4>>", 4, "float", 2, "float", "verif::vprobe<std::size_t, 4, float, 2>"))
    hs.append(h_layer("linear_5", "linear<P, verif::vd<double, 5>>", 5, "double", 1, "float", "verif::vprobe<std::size_t, 5, float, 1>"))
    # real, array-backed stacks (no probe): storage is reached through the view
    hs.append(h_layer("real_strided3", "strided<cv::size3, %s>" % A3, 3, "size_t", 3, "float", None))
    hs.append(h_layer("real_morton3", "morton<cv::size3, %s, false>" % A3, 3, "size_t", 3, "float", None))
    hs.append(h_layer("real_hilbert", "hilbert<cv::size2, %s>" % A2d, 2, "size_t", 2, "double", None))
    hs.append(h_layer("real_linear_strided3", "linear<strided<cv::size3, %s>>" % A3, 3, "float", 3, "float", None))
    hs.append(h_layer("real_affine_linear_strided3", "affine<linear<strided<cv::size3, %s>>>" % A3, 3, "float", 3, "float", None))
    hs.append(h_layer("real_affine_nn_morton3", "affine<nearest_neighbour<morton<cv::size3, %s, false>>>" % A3, 3, "float", 3, "float", None))
    hs.append(h_layer("real_clamp_strided2", "clamp<strided<cv::size2, %s>>" % A2d, 2, "size_t", 2, "double", None))
    hs.append(h_layer("real_backup_linear_strided2", "backup<linear<strided<cv::size2, %s>, cv::double2>>" % A2d, 2, "double", 2, "double", None))
    hs.append(h_fieldview("view_vec", "affine<linear<strided<cv::size3, %s>>>" % A3, 3, "float", 3, "float", False))
    hs.append(h_fieldview("view_var", "affine<linear<strided<cv::size3, %s>>>" % A3, 3, "float", 3, "float", True))
    hs.append(h_static("morton_index3", "morton<cv::size3, verif::aprobe<float,1>, false>::calculate_index({a0, a1, a2})",
                       [("std::size_t", ('c', k)) for k in range(3)]))
    hs.append(h_static("hilbert_index", "hilbert<cv::size2, verif::aprobe<float,1>>::calculate_index({a0, a1}, {a2, a3})",
                       [("std::size_t", ('c', k)) for k in range(4)]))
    return hs


def scan(rep, h, fj, module, tag):
    """effect scan of one function (and, recursively, defined callees)"""
    fn = ir.Func(fj)
    inst_name = "%s%s" % (h.meta["name"], tag)
    out_i = h.out_index if h.out else None
    t = ir.Taint(fn, {})
    bad = []
    n_store = n_load = n_call = 0
    for b in fn.blocks:
        for i in b["insts"]:
            op = i["op"]
            if i.get("atomic") or op in ("atomicrmw", "cmpxchg", "fence"):
                bad.append((i, "atomic operation / fence in a lookup"))
            if i.get("volatile"):
                bad.append((i, "volatile access in a lookup"))
            if op == "store":
                n_store += 1
                bases = t._ptr(i["ops"][1])
                gl = i["ops"][1]["k"] in ("global", "cexpr")
                if gl or not bases or any(bs[0] == "arg" and bs[1] != out_i for bs in bases):
                    bad.append((i, "store to memory that is not local to the lookup (%s)" % (
                        "global" if gl else "through argument %s" % sorted(bs[1] for bs in bases if bs[0] == "arg") if bases else "unknown pointer")))
            elif op == "load":
                n_load += 1
                o = i["ops"][0]
                names = []
                if o["k"] == "global":
                    names = [o["name"]]
                elif o["k"] == "cexpr":
                    names = [x["name"] for x in o.get("ops", []) if x.get("k") == "global"]
                for g in names:
                    gi = module["globals"].get(g, {})
                    if not gi.get("const") or gi.get("thread_local"):
                        bad.append((i, "read of mutable global state %s" % gi.get("dname", g)))
            elif op in ("call", "invoke"):
                name = i.get("callee")
                if name is None:
                    bad.append((i, "indirect call in a lookup"))
                    continue
                if name.startswith(ir.IGNORED_INTRINSICS):
                    continue
                n_call += 1
                base = ir.intrinsic_base(name) if name.startswith("llvm.") else name
                if name.startswith(SINK) or base in ir.PURE_INTRINSICS or base in ir.PURE_LIBM or name in OK_CALLS:
                    continue
                if name.startswith(("llvm.memcpy", "llvm.memmove", "llvm.memset")):
                    bases = t._ptr(i["ops"][0])
                    if not bases or any(bs[0] == "arg" and bs[1] != out_i for bs in bases):
                        bad.append((i, "%s into memory that is not local to the lookup" % base))
                    continue
                if i.get("callee_defined") and name in module["functions"]:
                    continue   # scanned separately (dumped with --callees)
                bad.append((i, "call to %s, which is neither the backend query nor a known pure function" % (i.get("dcallee") or name)))
    if bad:
        bad.sort(key=lambda x: 0 if x[1].startswith(("store", "llvm.mem")) else 1)      # the write itself first, its helpers after
        i, why = bad[0]
        rep.fail("C16.effects", inst_name, ir.where(i), "%s [%d finding(s) in this lookup]" % (why, len(bad)))
    else:
        rep.ok("C16.effects", inst_name, sample={"lookup": h.meta["B"], "stores": n_store, "loads": n_load, "calls": n_call} if len(rep.samples) < 6 else None)


KEYWORDS = [r"\bmutable\b", r"\bconst_cast\b", r"\bvolatile\b", r"\bthread_local\b", r"\bstd::atomic\b", r"\batomic_", r"\bstd::mutex\b"]


def strip_comments(src):
    src = re.sub(r"/\*.*?\*/", lambda m: "\n" * m.group(0).count("\n"), src, flags=re.S)
    src = re.sub(r"//[^\n]*", "", src)
    src = re.sub(r'"(?:\\.|[^"\\])*"', '""', src)
    return src


def token_scan(rep):
    nfiles = 0
    for sub in ("core", "cpu"):
        for root, _, files in os.walk(os.path.join(common.LIB, sub)):
            for f in sorted(files):
                if not f.endswith(".hpp"):
                    continue
                nfiles += 1
                p = os.path.join(root, f)
                src = strip_comments(open(p, errors="replace").read())
                rel = common.repo_rel(p)
                hit = None
                for ln, line in enumerate(src.split("\n"), 1):
                    for kw in KEYWORDS:
                        if re.search(kw, line):
                            hit = (ln, kw.replace(r"\b", ""))
                            break
                    if hit:
                        break
                    # static / namespace-scope mutable variables
                    m = re.match(r"\s*(?:inline\s+)?static\s+(?!constexpr|const\b|inline\s+constexpr)(?![^;(]*\()[^;]*;", line)
                    if m:
                        hit = (ln, "static non-const variable")
                        break
                if hit:
                    # a keyword is not a race: the effect analysis decides lookups and view construction; a construct it has no
                    # harness for may still be reached some other way, so this asks for re-confirmation (exit 2), it does not accuse
                    rep.undecided("C16 %s:%d uses `%s` (shared mutable state / const-bypassing construct) and the effect analysis of lookups and view construction found no write through it: "
                                  "re-confirm by reading that no operation the property lets threads perform concurrently reaches it" % (rel, hit[0], hit[1]))
                else:
                    rep.ok("C16.state", rel)
    return nfiles


def selfcheck():
    """the zero-expected token rule must match its positive example on every run"""
    pos = "struct X { mutable int hits; int f() const { static int calls = 0; return const_cast<X*>(this)->hits + calls; } };"
    src = strip_comments(pos)
    if not all(re.search(k, src) for k in (r"\bmutable\b", r"\bconst_cast\b")):
        raise AnalysisBroken("C16 token rule self-check failed")
    if not re.match(r"\s*(?:inline\s+)?static\s+(?!constexpr|const\b|inline\s+constexpr)(?![^;(]*\()[^;]*;", " static int calls = 0;"):
        raise AnalysisBroken("C16 static-variable rule self-check failed")


def declare(rep):
    rep.rule("C16.compile", "lookup-through-shared-view harness compiles", floor=20)
    rep.rule("C16.effects", "lookup writes only lookup-local memory, uses no atomics/volatile/mutable globals, calls only the backend query or pure functions", floor=40)
    rep.rule("C16.state", "library header uses no mutable/const_cast/volatile/thread_local/atomic and declares no non-const static variable (a hit is exit 2 unless the effect analysis found the write)", floor=25)


def run(rep, tier):
    selfcheck()
    hs = universe(tier)
    builds = [("", True)] + ([("/debug", False)] if True else [])
    for tag, nd in builds:
        for h in hs:
            h.func = None
            h.error = None
        harness.build(hs, "c16" + tag.replace("/", "_"), ndebug=nd, callees=True)
        for h in hs:
            if h.error:
                loc, msg = harness.first_error(h)
                rep.fail("C16.compile", h.meta["name"] + tag, loc, "does not compile: " + msg)
                continue
            rep.ok("C16.compile", h.meta["name"] + tag)
            scan(rep, h, h.func, h.module, tag)
            # defined callees that were not inlined (dumped with --callees) are scanned as part of the module
            for fname, fj in h.module["functions"].items():
                if fname.startswith("H_") or fname.startswith("_GLOBAL__"):
                    continue
                key = (fname, tag)
                if key in run.seen:
                    continue
                run.seen.add(key)
                fake = Harness(fj.get("dname", fname)[:80], [], "", meta={"name": "callee " + fj.get("dname", fname)[:100], "B": fname})
                fake.out = None
                scan(rep, fake, fj, h.module, tag)
    n = token_scan(rep)
    rep.extra["headers_scanned"] = n
    return hs


run.seen = set()


def check(tier):
    rep = Report("C16", tier, "proof")
    declare(rep)
    hs = run(rep, tier)
    rep.assumptions = ["data-race freedom per the C++ memory model: concurrent reads of memory that no thread writes do not race",
                       "writers go through the reference a lookup returns; writes to distinct coordinates are disjoint by C01/C14 (injective index maps, element stride)",
                       "the opaque probe stands for any conforming backend; the array backend is covered by the real array-backed stacks",
                       "views are trivially copyable (compile witness in C13)"]
    rep.extra["lookups"] = [h.meta["B"] for h in hs]
    return rep.finish(
        "Sound effect analysis of the optimised IR of every layer's lookup taken through a view passed by pointer (as when threads share a view), in the NDEBUG and the assertion-enabled build: "
        "all stores/memcpys target lookup-local memory, no atomics/volatile, only constant globals are read, and the only calls are the backend query, pure intrinsics/libm and __assert_fail. "
        "The same scan covers constructing a view from a const field (what each thread does first). A token-level scan of the headers for constructs that could introduce shared mutable state "
        "backs this up: a hit the effect analysis cannot attribute to a write is answered exit 2, not with a violation. The verdict is schedule-independent: it constrains every access a lookup can perform.",
        "bin/vcheck C16 (clang++ -O2 -emit-llvm | build/irdump --callees | effect scan in engine/rules/c16.py)",
        ["clang 14 -O2 IR faithful to source", "engine/ir.py points-to (Taint.pts) for store destinations", "C++ memory model"], exhaustive=True)
