"""C17  A field's configuration can be read back and used to rebuild it.

E3 / D-route (exact value identity, no arithmetic):
  C17.a  parameter_pack: x is the first constructor argument, xs holds the rest in order
  C17.b  make_parameter_pack_for at depth 1..10 over stacks whose layers all share ONE configuration type
         (nine affine layers over a probe): the configuration read back from layer i is argument i,
         component by component - type checking cannot mask a swap here
  C17.c  per layer with a non-trivial configuration: get_configuration() after construction from
         (configuration, backend) and from a parameter pack returns that configuration field by field, and
         get_backend() reaches the inner layer that was handed in (probe tag)
  C17.d  backend_depth / nth_backend and the accessor chains' types: compile witnesses (rule C13.api ops
         'depth', 'accessors', 'pack_for'), not repeated here
"""
from .. import harness, ir
from ..common import Report, AnalysisBroken
from ..harness import Harness, STYPES

PP = "lib/core/covfie/core/parameter_pack.hpp"
T_DIR = "lib/core/covfie/core/backend/transformer/"


def h_pack(n):
    args = [("float", ('x', i)) for i in range(n)]
    body = "  auto p = covfie::make_parameter_pack(%s);\n" % ", ".join("float(a%d)" % i for i in range(n))
    acc = "p"
    for i in range(n):
        body += "  out[%d] = %s.x;\n" % (i, acc)
        acc += ".xs"
    return Harness("pack_%d" % n, args, body, out=("float", n), meta={"kind": "pack", "n": n})


def nested_affine(d):
    t = "verif::vprobe<float, 1, float, 1>"
    for _ in range(d - 1):
        t = "affine<%s>" % t
    return t


def h_pack_for(d):
    """depth d: d-1 affine<1,float> layers (configuration = 1x2 matrix) over the probe"""
    args = []
    for i in range(d - 1):
        args += [("float", ('m', i, 0)), ("float", ('m', i, 1))]
    args.append(("std::uint64_t", 'tag'))
    cfgs = []
    for i in range(d - 1):
        cfgs.append("M(covfie::algebra::matrix<1, 2, float>(covfie::array::array<covfie::array::array<float, 2>, 1>(covfie::array::array<float, 2>{a%d, a%d})))" % (2 * i, 2 * i + 1))
    cfgs.append("verif::vprobe<float, 1, float, 1>::configuration_t{a%d}" % (2 * (d - 1)))
    body = "  using B = %s;\n  using M = covfie::algebra::affine<1, float>;\n" % nested_affine(d)
    body += "  covfie::field<B> f(covfie::make_parameter_pack_for<covfie::field<B>>(%s));\n" % ", ".join(cfgs)
    acc = "f.backend()"
    for i in range(d - 1):
        body += "  { auto c = %s.get_configuration(); out[%d] = c(0, 0); out[%d] = c(0, 1); }\n" % (acc, 2 * i, 2 * i + 1)
        acc += ".get_backend()"
    body += "  out[%d] = static_cast<float>(verif::vprobe<float, 1, float, 1>::cfg_traits::tag(%s.get_configuration()));\n" % (2 * (d - 1), acc)
    return Harness("pack_for_%d" % d, args, body, out=("float", 2 * (d - 1) + 1), meta={"kind": "pack_for", "d": d})


def layer_spec(layer, N, S, M=2):
    """(probe type or None, layer type, configuration fields as harness args, configuration expression, read-back statements)"""
    ct = STYPES[S][0]
    if layer in ("strided", "morton", "hilbert"):
        P = "verif::aprobe<float, %d>" % M
        B = {"strided": "strided<verif::vd<%s, %d>, P>", "morton": "morton<verif::vd<%s, %d>, P>", "hilbert": "hilbert<verif::vd<%s, %d>, P>"}[layer] % (ct, N)
        fields = [("std::size_t", ('s', k)) for k in range(N)]
        cfg = "B::configuration_t{%s}" % ", ".join("a%d" % k for k in range(N))
        read = ["out[%d] = static_cast<double>(c[%d]);" % (k, k) for k in range(N)]
    elif layer == "clamp":
        P = "verif::vprobe<%s, %d, float, %d>" % (ct, N, M)
        B = "clamp<P>"
        fields = [(ct, ('lo', k)) for k in range(N)] + [(ct, ('hi', k)) for k in range(N)]
        cfg = "B::configuration_t{{%s}, {%s}}" % (", ".join("a%d" % k for k in range(N)), ", ".join("a%d" % (N + k) for k in range(N)))
        read = ["out[%d] = static_cast<double>(c.min[%d]);" % (k, k) for k in range(N)] + ["out[%d] = static_cast<double>(c.max[%d]);" % (N + k, k) for k in range(N)]
    elif layer == "backup":
        P = "verif::vprobe<%s, %d, float, %d>" % (ct, N, M)
        B = "backup<P>"
        fields = [(ct, ('lo', k)) for k in range(N)] + [(ct, ('hi', k)) for k in range(N)] + [("float", ('def', q)) for q in range(M)]
        cfg = "B::configuration_t{{%s}, {%s}, {%s}}" % (", ".join("a%d" % k for k in range(N)), ", ".join("a%d" % (N + k) for k in range(N)),
                                                      ", ".join("a%d" % (2 * N + q) for q in range(M)))
        read = (["out[%d] = static_cast<double>(c.min[%d]);" % (k, k) for k in range(N)] + ["out[%d] = static_cast<double>(c.max[%d]);" % (N + k, k) for k in range(N)] +
                ["out[%d] = static_cast<double>(c.default_value[%d]);" % (2 * N + q, q) for q in range(M)])
    elif layer == "affine":
        P = "verif::vprobe<%s, %d, float, %d>" % (ct, N, M)
        B = "affine<P>"
        fields = [(ct, ('A', i, j)) for i in range(N) for j in range(N + 1)]
        rows = ["covfie::array::array<%s, %d>{%s}" % (ct, N + 1, ", ".join("a%d" % (i * (N + 1) + j) for j in range(N + 1))) for i in range(N)]
        cfg = "B::configuration_t(covfie::algebra::matrix<%d, %d, %s>(covfie::array::array<covfie::array::array<%s, %d>, %d>(%s)))" % (N, N + 1, ct, ct, N + 1, N, ", ".join(rows))
        read = ["out[%d] = static_cast<double>(c(%d, %d));" % (i * (N + 1) + j, i, j) for i in range(N) for j in range(N + 1)]
    elif layer == "constant":
        P = None
        B = "constant<verif::vd<%s, %d>, verif::vd<float, %d>>" % (ct, N, M)
        fields = [("float", ('m', q)) for q in range(M)]
        cfg = "B::configuration_t{%s}" % ", ".join("a%d" % q for q in range(M))
        read = ["out[%d] = static_cast<double>(c[%d]);" % (q, q) for q in range(M)]
    elif layer == "array":
        P = None
        B = "array<verif::vd<float, %d>>" % M
        fields = [("std::size_t", ('n', 0))]
        cfg = "B::configuration_t{a0}"
        read = ["out[0] = static_cast<double>(c[0]);"]
    else:
        raise ValueError(layer)
    return P, B, fields, cfg, read


def h_array_route(route, M=2):
    """the storage layer's configuration (its element count) along copy / assignment / move: assignment targets an
    already constructed array of ANOTHER size (a1), so a member that only some branches update shows"""
    P, B, fields, cfg, read = layer_spec("array", 1, "size_t", M)
    args = fields + [("std::size_t", ('other', 0))]
    body = "  using B = %s;\n  B::owning_data_t o1(%s);\n" % (B, cfg)
    body += {"copy": "  B::owning_data_t o(o1);\n", "move": "  B::owning_data_t o(std::move(o1));\n",
             "assign": "  B::owning_data_t o(B::configuration_t{a1}); o = o1;\n",
             "move-assign": "  B::owning_data_t o(B::configuration_t{a1}); o = std::move(o1);\n"}[route]
    body += "  const B::owning_data_t & co = o;\n  auto c = co.get_configuration();\n  " + "\n  ".join(read) + "\n"
    return Harness("cfg_array_%s" % route.replace("-", "_"), args, body, out=("double", 1),
                   meta={"kind": "layer", "layer": "array", "N": 1, "S": "size_t", "how": route, "nf": 1, "probe": False, "alloc": True})


def h_layer(layer, N, S, how, M=2):
    """construct `layer` over a probe from (config, backend) or from a parameter pack; read everything back"""
    ct = STYPES[S][0]
    P, B, fields, cfg, read = layer_spec(layer, N, S, M)
    nf = len(fields)
    args = fields + ([("std::uint64_t", 'tag')] if P else [])
    body = ""
    if P:
        body += "  using P = %s;\n" % P
    body += "  using B = %s;\n" % B
    if P and how == "config+backend":
        body += "  B::owning_data_t o(%s, P::owning_data_t(P::configuration_t{a%d}));\n" % (cfg, nf)
    elif P:
        body += "  B::owning_data_t o(covfie::make_parameter_pack(%s, P::configuration_t{a%d}));\n" % (cfg, nf)
    elif how == "config+backend":
        body += "  B::owning_data_t o(%s);\n" % cfg
    else:
        body += "  B::owning_data_t o(covfie::make_parameter_pack(%s));\n" % cfg
    body += "  const B::owning_data_t & co = o;\n  auto c = co.get_configuration();\n  " + "\n  ".join(read) + "\n"
    if P:
        body += "  out[%d] = static_cast<double>(P::cfg_traits::tag(co.get_backend().get_configuration()));\n" % nf
        body += "  out[%d] = static_cast<double>(P::cfg_traits::tag(o.get_backend().get_configuration()));\n" % (nf + 1)
        body += "  B::non_owning_data_t v(o); const B::non_owning_data_t & cv = v;\n  out[%d] = static_cast<double>(P::cfg_traits::tag(cv.get_backend().m_cfg));\n" % (nf + 2)
    return Harness("cfg_%s_%s%d_%s" % (layer, S, N, "pack" if how == "pack" else "cb"), args, body, out=("double", nf + (3 if P else 0)),
                   meta={"kind": "layer", "layer": layer, "N": N, "S": S, "how": how, "nf": nf, "probe": bool(P)})


def strip_num(t):
    """conversions to double used only to write heterogeneous fields into one output array"""
    return ir.strip_casts(t, ("fpext", "uitofp", "sitofp", "zext", "sext"))


def declare(rep):
    rep.rule("C17.compile", "configuration harness compiles", floor=12)
    rep.rule("C17.a", "parameter_pack: x is the first argument, xs the rest, in order", floor=4)
    rep.rule("C17.b", "make_parameter_pack_for (depth 1..10, identical configuration types): configuration read back from layer i is argument i", floor=10)
    rep.rule("C17.c", "per layer: get_configuration() returns the constructing configuration field by field; get_backend() reaches the inner layer", floor=12)


def harnesses(tier):
    hs = [h_pack(n) for n in (1, 2, 3, 5)]
    hs += [h_pack_for(d) for d in range(1, 11)]
    Ns = (1, 2, 3) if tier == "quick" else (1, 2, 3, 4)
    for how in ("config+backend", "pack"):
        for N in Ns:
            hs.append(h_layer("strided", N, "size_t", how))
            hs.append(h_layer("morton", N, "size_t", how))
            hs.append(h_layer("clamp", N, "float" if N % 2 else "int", how))
            hs.append(h_layer("backup", N, "double" if N % 2 else "size_t", how))
            hs.append(h_layer("affine", N, "float" if N % 2 else "double", how))
            hs.append(h_layer("constant", N, "float", how))
        hs.append(h_layer("hilbert", 2, "size_t", how))
        hs.append(h_layer("array", 1, "size_t", how))
    hs += [h_array_route(r) for r in ("copy", "move", "assign", "move-assign")]
    return hs


def run(rep, tier):
    hs = harnesses(tier)
    from .c14_hilbert import OPAQUE
    harness.build(hs, "c17", per_tu=10, includes=OPAQUE)
    for h in hs:
        kind = h.meta["kind"]
        inst = h.name
        if h.error:
            loc, msg = harness.first_error(h)
            rep.fail("C17.compile", inst, loc, "does not compile: " + msg)
            continue
        rep.ok("C17.compile", inst)
        s = ir.Sym(h.func)
        if s.unknown:
            raise AnalysisBroken("C17 %s: unmodelled instruction %s at %s" % (inst, s.unknown[0]["op"], ir.where(s.unknown[0])))
        ALLOC = ("_Znam", "_Znwm", "_ZdaPv", "_ZdlPv", "memset", "memcpy", "memmove", "llvm.mem", "__cxa_throw_bad_array_new_length", "_ZSt28__throw_bad_array_new_lengthv", "llvm.umul.with.overflow")
        if any(not (c.name or "").startswith(("_ZN6covfie7utility10round_pow2", "_ZN6covfie7utility4ipow") + (ALLOC if h.meta.get("layer") == "array" else ())) for c in s.calls):
            raise AnalysisBroken("C17 %s: unexpected call %s in a configuration harness" % (inst, s.calls[0].dname))
        if kind == "pack":
            outs = s.outputs(h.out_index)
            for i in range(h.meta["n"]):
                ii = "%s slot %d" % (inst, i)
                if outs.get(4 * i) != ('arg', i):
                    rep.fail("C17.a", ii, PP, "slot %d of the pack holds %s, expected argument %d" % (i, ir.show(outs.get(4 * i)) if outs.get(4 * i) else "nothing", i))
                else:
                    rep.ok("C17.a", ii)
        elif kind == "pack_for":
            d = h.meta["d"]
            outs = s.outputs(h.out_index)
            good = True
            for i in range(d - 1):
                for j in range(2):
                    got = outs.get(4 * (2 * i + j))
                    if got != h.atom(('m', i, j)):
                        rep.fail("C17.b", "%s layer %d" % (inst, i), PP, "layer %d (from the outside) of a depth-%d stack reports configuration entry %d = %s, expected its own argument" % (
                            i, d, j, ir.show(got) if got else "unwritten"))
                        good = False
            got = outs.get(4 * 2 * (d - 1))
            if got is None or strip_num(got) != h.atom('tag'):
                rep.fail("C17.b", "%s innermost" % inst, PP, "innermost backend reports %s, expected the last argument" % (ir.show(got) if got else "nothing"))
                good = False
            if good:
                rep.ok("C17.b", inst, sample={"depth": d, "verdict": "configuration i == argument i for all layers"} if d == 10 else None)
        else:
            nf = h.meta["nf"]
            outs = s.outputs(h.out_index)
            good = True
            file = T_DIR + h.meta["layer"] + ".hpp" if h.meta["layer"] not in ("constant", "array") else "lib/core/covfie/core/backend/primitive/%s.hpp" % h.meta["layer"]
            for i in range(nf):
                got = outs.get(8 * i)
                exp = ('arg', i)
                if got is not None and strip_num(got) != exp and h.meta.get("alloc"):
                    # path-dependent but possibly equal (`n == m ? m : n`): decided over all orderings of the two counts and 0
                    oc = ir.ord_compare(got, exp)
                    if oc:
                        continue
                    if oc is None:
                        rep.undecided("C17.c %s: configuration field %s reads back as %s; not decided whether that is argument %d on every path" % (inst, h.args[i][1], ir.show(got)[:200], i))
                        good = None
                        continue
                if got is None or strip_num(got) != exp:
                    role = h.args[i][1]
                    rep.fail("C17.c", "%s field %s" % (inst, role), file, "configuration field %s reads back as %s" % (role, ir.show(got) if got else "unwritten"))
                    good = False
            if h.meta["probe"]:
                for j, whatj in enumerate(("const get_backend()", "get_backend()", "view get_backend()")):
                    got = outs.get(8 * (nf + j))
                    if got is None or strip_num(got) != h.atom('tag'):
                        rep.fail("C17.c", "%s %s" % (inst, whatj), file, "%s does not reach the inner layer that was handed in (%s)" % (whatj, ir.show(got) if got else "unwritten"))
                        good = False
            if good:
                rep.ok("C17.c", inst)
    return hs


def check(tier):
    rep = Report("C17", tier, "other")
    declare(rep)
    hs = run(rep, tier)
    # the same over probes that look like other backends to compile-time inspection (1: configuration is nd_size<N>, 2: array-like: constructible
    # from a count): a construction route that special-cases the type of the inner backend shows here
    for mimic in (1, 2):
        harness.GLOBAL_EXTRA = ["-DVERIF_PROBE_MIMIC=%d" % mimic]
        try:
            run(rep, "quick")
        finally:
            harness.GLOBAL_EXTRA = []
    # the array backend's configuration (element count), including narrow index types: rules C01.d
    from . import c01
    c01.declare(rep)
    rep.rules.pop("C01.b-ctor", None)
    c01.run_array(rep, tier)
    rep.assumptions = ["array backend's configuration (element count) is decided by the C01.d rules, evaluated here too",
                       "'a field rebuilt from the reported configurations and storage is equal' follows because every lookup is a function of (configuration, storage) only (C02, C16)",
                       "types of the accessor chains, backend_depth and nth_backend: compile witnesses in C13"]
    rep.extra["instantiations"] = [h.name for h in hs]
    return rep.finish(
        "Exact value-identity reading of optimised loop-free IR: each harness builds a layer (from configuration+backend and from a parameter pack) or a whole depth-d stack through "
        "make_parameter_pack_for with scalar arguments as configuration fields, reads every configuration back through get_configuration()/get_backend(), and each value read must be exactly "
        "the argument it was built from. The depth 1..10 stacks use nine layers with one and the same configuration type, so a positional mix-up cannot be masked by type checking.",
        "bin/vcheck C17 (clang++ -O2 -emit-llvm | build/irdump | engine/ir.py)",
        ["clang 14 -O2 IR faithful to source", "engine/ir.py term builder"])
