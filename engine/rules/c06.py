"""C06  Dumping a field and loading it back reproduces it exactly.

G-IO pairing (engine/rules/io.py) for every layer over the opaque probe, for the array payload (io_array.py)
and for field::dump / field(std::istream&):
  IO1  writer and reader sequences have the same length and item kinds, position by position
  IO2  byte counts agree position by position
  IO3  header/footer words written are the global magic words and the layer's own tag (+0x20000000 in the footer),
       and the reader compares the words it reads at those positions with exactly the same constants
  IO4  the harness argument a field was built from is written at position p, and the field of the reloaded object
       is exactly the bytes read at position p, same offset and size (no conversion): bit-identical configuration
  IO5  the inner backend is serialised in the same position by both sides, and the reloaded object's inner
       backend is the object the inner reader returned
  IO6  every written byte is defined (no padding or uninitialised bytes reach the stream), so a second dump of the
       reloaded object produces the same bytes
"""
from .. import ir
from ..common import Report, AnalysisBroken
from . import io, io_array


def declare(rep):
    rep.rule("C06.compile", "writer and reader harness of the layer compile", floor=20)
    rep.rule("C06.IO1-2", "writer and reader item sequences agree in length, kind and byte count", floor=20)
    rep.rule("C06.IO3", "header/footer words: magic + layer tag, identical constants on both sides", floor=10)
    rep.rule("C06.IO4", "every configuration field is written from, and reloaded into, the same field at the same position, bit for bit", floor=10)
    rep.rule("C06.IO5", "inner backend delegated at the same position; reloaded inner backend is the one read", floor=15)
    rep.rule("C06.IO6", "every written byte is defined (no padding / uninitialised bytes)", floor=10)
    rep.rule("C06.IO7", "a reader rejects a stream only on a failed stream-state test or on bytes compared with a constant (framing/width): never depending on configuration or payload values, so every field the writer can dump loads again", floor=20)


def strip_num(t):
    return io.norm_rd(ir.strip_casts(t, ("fpext", "uitofp", "sitofp", "zext", "sext")))


def check_pair(rep, g):
    hw, hr = g.hw, g.hr
    m = hw.meta
    inst = "%s%s<%s,%d>" % ("field " if m["field"] else "", m["layer"], m["S"], m["N"])
    file = io.layer_file(m["layer"])
    if not g.ok:
        from .. import harness
        h = hw if hw.error else hr
        loc, msg = harness.first_error(h)
        rep.fail("C06.compile", inst, loc, "%s does not compile: %s" % ("writer" if hw.error else "reader", msg))
        return
    rep.ok("C06.compile", inst)
    W, R = g.W, g.R
    Wc, Rc = g.Wc, g.Rc
    if any(i["kind"].startswith("other") for i in W + R):
        raise AnalysisBroken("C06 %s: stream operation other than write/read at %s" % (inst, ir.where([i for i in W + R if i["kind"].startswith("other")][0]["call"].inst)))
    if any(i["call"].cond != ir.TRUE for i in W):
        rep.fail("C06.IO1-2", inst, file, "a write is conditional; the byte stream of this layer is not a fixed item sequence")
        return
    if [(i["kind"], i.get("bytes")) for i in Wc] != [(i["kind"], i.get("bytes")) for i in Rc]:
        rep.fail("C06.IO1-2", inst, file, "writer emits %s but reader consumes %s" % (g.summary()["W"], g.summary()["R"]))
        return
    rep.ok("C06.IO1-2", inst, sample={"layer": inst, "grammar": g.summary()["W"]} if len(rep.samples) < 6 else None)
    nf = m["nf"]
    tag_out = g.outs.get(8 * (nf + 1))
    tag = int(tag_out[1]) if tag_out and tag_out[0] == 'cf' else None
    tagged = m["layer"] not in io.TRANSPARENT
    lits = g.ret_lits[0] if len(g.ret_lits) == 1 else None
    if lits is None:
        raise AnalysisBroken("C06 %s: reader has %d normal returns" % (inst, len(g.ret_lits)))
    frames = ([0xAB000000] if m["field"] else []) + ([tag] if tagged else [])
    nfr = len(frames)
    if frames:
        good = True
        first, last = Wc[0], Wc[-1]
        rfirst, rlast = Rc[0], Rc[-1]
        if first["kind"] != "raw" or last["kind"] != "raw" or first["bytes"] < 8 * nfr or last["bytes"] < 8 * nfr:
            rep.fail("C06.IO3", inst, file, "stream does not start and end with %d header/footer word pairs: %s" % (nfr, g.summary()["W"]))
            good = False
        else:
            for d, t in enumerate(frames):
                words = [(first, rfirst, 8 * d, io.MAGIC_HEADER), (first, rfirst, 8 * d + 4, t),
                         (last, rlast, last["bytes"] - 8 * (d + 1), io.MAGIC_FOOTER), (last, rlast, last["bytes"] - 8 * (d + 1) + 4, (t + io.FOOTER_DELTA) & 0xFFFFFFFF)]
                for wrun, rrun, off, const in words:
                    got = io.run_word(wrun, off)
                    wi = "%s word@%s%d" % (inst, "start+" if wrun is first and off < 8 * nfr else "end-", off if wrun is first and off < 8 * nfr else wrun["bytes"] - off)
                    if got != const:
                        rep.fail("C06.IO3", wi, ir.where(wrun["parts"][0][2].inst), "word written is %s, expected 0x%08X" % ("0x%08X" % got if got is not None else "not a constant", const))
                        good = False
                        continue
                    k, rel = io.run_read_at(rrun, off)
                    if k is None or not io.eq_literal(lits, k, const, rel):
                        rep.fail("C06.IO3", wi, ir.where(rrun["parts"][0][2].inst), "reader does not require this word to equal 0x%08X before returning" % const)
                        good = False
        if good:
            rep.ok("C06.IO3", inst)
    # IO4 / IO6: payload = everything in the raw runs except the framing words
    field_atoms = {('arg', k): r for k, (_, r) in enumerate(hw.args[:nf])}
    seen_fields = set()
    good4 = good6 = True
    any_payload = False
    for si, (wrun, rrun) in enumerate(zip(Wc, Rc)):
        if wrun["kind"] != "raw":
            continue
        lo = 8 * nfr if si == 0 else 0
        hi = wrun["bytes"] - (8 * nfr if si == len(Wc) - 1 else 0)
        if hi <= lo:
            continue
        any_payload = True
        if wrun["unknown_content"]:
            raise AnalysisBroken("C06 %s: cannot determine what a write emits" % inst)
        covered = lo
        for off, sz, term in sorted(wrun["content"]):
            if off < lo or off >= hi:
                continue
            if off != covered or ir.has_undef(term):
                good6 = False
            covered = off + sz
            if term in field_atoms:
                k = term[1]
                seen_fields.add(k)
                got = g.outs.get(8 * k)
                g2 = strip_num(got) if got else None
                rk, rel = io.run_read_at(rrun, off, sz)
                if not (g2 and g2[0] == 'wr' and rk is not None and g2[:5] == ('wr', rk, 1, rel, sz)):
                    rep.fail("C06.IO4", "%s field %s" % (inst, field_atoms[term]), file, "field %s is written at payload byte %d but the reloaded object's field is %s" % (
                        field_atoms[term], off - lo, ir.show(got) if got else "never set"))
                    good4 = False
        if covered != hi:
            good6 = False
        if not good6:
            rep.fail("C06.IO6", "%s run %d" % (inst, si), ir.where(wrun["parts"][0][2].inst), "payload run of %d bytes: only bytes up to %d are defined values (padding or uninitialised bytes reach the stream)" % (hi - lo, covered - lo))
    if any_payload:
        missing = set(range(nf)) - seen_fields
        if missing:
            rep.fail("C06.IO4", "%s unwritten" % inst, file, "configuration field(s) %s are never written" % [hw.args[k][1] for k in sorted(missing)])
            good4 = False
        if good4:
            rep.ok("C06.IO4", inst)
        if good6:
            rep.ok("C06.IO6", inst)
    bad = io.unjustified_throws(g.sr)
    if bad:
        rep.fail("C06.IO7", inst, ir.where(bad[0].inst), "the reader can throw depending on configuration/payload values (not on framing, width or stream state): some fields the writer dumps would be refused on load")
    else:
        rep.ok("C06.IO7", inst)
    # IO5: delegate
    if m["probe"]:
        dW = [i for i in W if i["kind"] == "delegate"]
        dR = [i for i in R if i["kind"] == "delegate"]
        got = g.outs.get(8 * nf)
        ok5 = len(dW) == 1 and len(dR) == 1 and dW[0]["tag"] == hw.atom('tag') and got is not None and strip_num(got)[0] == 'call' and strip_num(got)[2] == dR[0]["call"].n
        if ok5:
            rep.ok("C06.IO5", inst)
        else:
            rep.fail("C06.IO5", inst, file, "inner backend: writer delegates %d time(s) with %s; reloaded inner backend is %s" % (
                len(dW), ir.show(dW[0]["tag"]) if dW else "-", ir.show(got) if got else "unset"))


def run(rep, tier):
    gs = io.build_pairs(io.universe(tier), "c06")
    for g in gs:
        check_pair(rep, g)
    io_array.run_c06(rep, tier)
    for h in io.real_readers(tier):
        inst = "%s<%d,%s^%d> over array (reader)" % (h.meta["layer"], h.meta["N"], h.meta["T"], h.meta["M"])
        if h.error:
            from .. import harness
            loc, msg = harness.first_error(h)
            rep.fail("C06.IO7", inst, loc, "reader does not compile: " + msg)
            continue
        s = io.normalise_throws(ir.Sym(h.func, epochs=True, cut_loops=True), h.module)
        bad = io.unjustified_throws(s)
        if bad:
            rep.fail("C06.IO7", inst, ir.where(bad[0].inst), "the reader can throw depending on configuration/payload values (not on framing, width or stream state): some fields the writer dumps would be refused on load")
        else:
            rep.ok("C06.IO7", inst)
    return gs


def check(tier):
    rep = Report("C06", tier, "other")
    declare(rep)
    io_array.declare_c06(rep)
    gs = run(rep, tier)
    # a reloaded field must also ANSWER like the dumped one: state that is derived from the configuration (the Hilbert layer's curve
    # side) has to be re-derived on the loading route
    from . import c14_hilbert
    rep.rule("C14.d-load", "a Hilbert field that came out of read_binary walks a square of side round_pow2(max of the extents read)", floor=1)
    c14_hilbert.run_loaded(rep, tier)
    if not rep.violations:
        from . import c02
        c02.param_lint(rep)
    rep.assumptions = ["nothing is executed: this is agreement of the writer's and the reader's item tables plus routing of every field - necessary for the round trip, and with IO1-IO6 close to sufficient",
                       "std::ostream::write / std::istream::read transfer exactly the bytes they are given / asked for",
                       "the opaque probe stands for any inner backend (its own serialisation is one DELEGATE item)"]
    rep.extra["layers"] = [g.hw.name for g in gs]
    return rep.finish(
        "For every serialisable layer the writer's and the reader's item sequences are extracted from optimised IR (opaque stream calls in program order, contents by value identity) and paired: "
        "same kinds and byte counts, same magic/tag constants written and required, every configuration field written from and reloaded into the same field at the same offset without conversion "
        "(hence bit-identical), inner backend delegated in the same position, and every written byte defined (so the second dump equals the first). The array payload's loops are paired separately.",
        "bin/vcheck C06 (clang++ -O2 -emit-llvm | build/irdump | engine/rules/io.py, io_array.py)",
        ["clang 14 -O2 IR faithful to source", "engine/ir.py memory snapshots and read atoms", "iostream contract of write/read"])
