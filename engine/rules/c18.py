"""C18  Power-of-two rounding and integer power are exact; curve storage is large enough.

Abstract interpretation of the two loops in purpose-built domains, on the optimised IR of each instantiation
(unsigned 8/16/32/64 bit), read with the back edge cut so that loop-carried values are symbolic:

round_pow2 - domain P(i): "v = 2^k with k < w, and k = 0 or 2^(k-1) < i".
   entry:  the loop-carried value starts at the constant 1                      (1 = 2^0 is in P)
   step:   under the continuation guard, which must entail v < i (unsigned), the next value is 2*v
           (then 2^(k+1) with 2^k = v < i <= 2^(w-1), so it is in P and does not overflow)
   exit:   the value returned is v itself on the edge where v < i is false
   P at exit and v >= i  ==>  v is the least power of two not below i, for every 1 <= i <= 2^(w-1).
ipow - exponent domain over a symbolic base B: r = B^alpha, b = B^beta, invariant alpha + beta*p = e.
   entry:  r = 1 (alpha = 0), b = base (beta = 1), p = e
   step:   exponents are propagated through the loop body (multiplication adds exponents, the constant 1 has
           exponent 0, a select on the low bit of p contributes bit*exponent); p must become p >> 1, i.e. (p - bit)/2;
           the invariant is inductive iff  alpha' + beta'*p' == alpha + beta*p  as a polynomial identity in
           (alpha, beta, p, bit) - decided by canonicalisation, no solver
   exit:   the loop is left only when p >> 1 == 0 and the value returned is the updated r, so alpha = e;
           multiplication modulo 2^w is a ring homomorphism, hence the result is base^e mod 2^w for all base, e.
Sizing consequence: every allocation site of a Morton/Hilbert field sizes its storage as ipow(round_pow2(max extent), N)
over all extents (rules C05.c from relayout.py), which with the two facts above exceeds every curve position.
A loop of any other shape (a closed-form bit trick, a different exponentiation scheme) is reported as analysis-broken.
"""
from fractions import Fraction

from .. import harness, ir
from ..common import Report, AnalysisBroken
from ..harness import Harness
from . import c05, relayout

FILE = "lib/core/covfie/core/utility/numeric.hpp"
TYPES = {"uint8_t": 8, "uint16_t": 16, "uint32_t": 32, "uint64_t": 64}


def h_rp2(T):
    return Harness("rp2_%s" % T, [("std::%s" % T, 'i')], "  return covfie::utility::round_pow2<std::%s>(a0);" % T, ret="std::%s" % T, meta={"T": T, "kind": "round_pow2"})


def h_ipow(T):
    return Harness("ipow_%s" % T, [("std::%s" % T, 'b'), ("std::%s" % T, 'e')], "  return covfie::utility::ipow<std::%s>(a0, a1);" % T, ret="std::%s" % T, meta={"T": T, "kind": "ipow"})


def declare(rep):
    rep.rule("C18.compile", "instantiation compiles", floor=6)
    rep.rule("C18.rp2", "round_pow2: loop value starts at 1, doubles only while strictly below i, and the tested value is returned (domain P(i) inductive, exit gives the least power of two >= i)", floor=3)
    rep.rule("C18.ipow", "ipow: exponent invariant alpha + beta*p = e is inductive over the loop body, p halves, loop ends only when p >> 1 == 0, updated r is returned", floor=3)


class WrongBit(Exception):
    pass


def const_val(t):
    return t[1] if isinstance(t, tuple) and t[0] == 'ci' else None


def is_double(t, v):
    """t == 2*v ?"""
    if t[0] == 'op' and t[1] == 'shl' and t[3] == v and const_val(t[4]) == 1:
        return True
    if t[0] == 'op' and t[1] == 'mul' and ((t[3] == v and const_val(t[4]) == 2) or (t[4] == v and const_val(t[3]) == 2)):
        return True
    if t[0] == 'op' and t[1] == 'add' and t[3] == v and t[4] == v:
        return True
    return False


def below(lit, v, i):
    """does literal `lit` state v <u i ?"""
    neg = False
    if lit[0] == 'not':
        neg, lit = True, lit[1]
    if lit[0] != 'cmp':
        return False
    p, a, b = lit[1], lit[2], lit[3]
    if not neg:
        return (p == 'ult' and a == v and b == i) or (p == 'ugt' and a == i and b == v)
    return (p == 'uge' and a == v and b == i) or (p == 'ule' and a == i and b == v)


def check_rp2(rep, h):
    T = h.meta["T"]
    inst = "round_pow2<%s>" % T
    s = ir.Sym(h.func, cut_loops=True)
    if s.unknown or s.calls:
        raise AnalysisBroken("C18 %s: unexpected instruction/call" % inst)
    w = TYPES[T]
    if not s.loops:
        # a closed form (std::bit_ceil, a count-leading-zeros expression): a step expression of i is decided by exact evaluation at
        # the points where it can change, 2^k + d for |d| <= 2
        from .hilbert_curve import step_expr, ev_int
        rv = s.retval()
        i = ('arg', 0)
        if rv is None:
            raise AnalysisBroken("C18 %s: no loop and no result" % inst)
        m = (1 << w) - 1
        for k in range(0, w):
            for d in (-2, -1, 0, 1, 2):
                x = (1 << k) + d
                if x < 1 or x > (1 << (w - 1)):
                    continue
                try:
                    got = ev_int(ir.ungate(rv), {i: x}) & m
                except AnalysisBroken as e:
                    raise AnalysisBroken("C18 %s: %s" % (inst, e))
                want = 1
                while want < x:
                    want *= 2
                if got != want:
                    rep.fail("C18.rp2", inst, FILE, "round_pow2(%d) evaluates to %d, the least power of two not below it is %d (closed form %s)" % (x, got, want, ir.show(ir.ungate(rv))[:80]))
                    return
        if not step_expr(ir.ungate(rv), {i}):
            # a witness refutes any expression; agreement proves equality only for a step expression
            raise AnalysisBroken("C18 %s: no loop; the result %s agrees with the specification at every point tried but is not a step expression of i (count-leading-zeros, shifts, constants): not decided; re-confirm %s by reading" % (inst, ir.show(rv)[:80], FILE))
        rep.ok("C18.rp2", inst, sample={"instantiation": inst, "form": "closed (no loop): step expression of i", "verdict": "equals the least power of two >= i at every point where it can change, 1 <= i <= 2^%d" % (w - 1)})
        return
    if len(s.loops) != 1 or len(s.iv) != 1:
        raise AnalysisBroken("C18 %s: not a single loop with a single loop-carried value (%d loops, %d carried values); a different algorithm must be re-confirmed by reading %s" % (inst, len(s.loops), len(s.iv), FILE))
    (pid, info), = s.iv.items()
    v = ('iv', pid, info["init"])
    i = ('arg', 0)
    step = s.iv_step(pid)
    why = None
    if const_val(info["init"]) != 1:
        why = "the loop value starts at %s, not at 1 (P(i) does not hold on entry for i = 1)" % ir.show(info["init"])
    elif len(step) != 1 or step[0] is None or not is_double(step[0], v):
        why = "the loop value is updated to %s, not doubled: the result need not be a power of two / the least one" % (ir.show(step[0]) if step and step[0] else "?")
    else:
        latch = [ir.common_lits(c) for c in getattr(s, "latch_cond", {}).values()]
        if len(latch) != 1 or not any(below(l, v, i) for l in latch[0]):
            why = "the loop continues on %s, which does not entail value < i: the value may be doubled once too often (not the least power of two)" % (
                [ir.show(l)[:60] for l in latch[0]] if latch else "?")
        else:
            rets = s.ret_cond
            if len(rets) != 1:
                raise AnalysisBroken("C18 %s: %d return sites" % (inst, len(rets)))
            rc, rv = rets[0]
            lits = ir.common_lits(rc)
            if ir.ungate(rv) != v:
                why = "the value returned is %s, not the value that was compared with i" % ir.show(rv)[:80]
            elif not any(below(ir.mk_not(l), v, i) for l in lits):
                why = "the function can return although value >= i has not been established"
    if why:
        rep.fail("C18.rp2", inst, FILE, why)
    else:
        rep.ok("C18.rp2", inst, sample={"instantiation": inst, "domain": "P(i): v = 2^k, k < %d, k = 0 or 2^(k-1) < i" % w, "verdict": "inductive; exit yields least power of two >= i for 1 <= i <= 2^%d" % (w - 1)})


def check_ipow(rep, h):
    T = h.meta["T"]
    inst = "ipow<%s>" % T
    s = ir.Sym(h.func, cut_loops=True)
    if s.unknown or s.calls:
        raise AnalysisBroken("C18 %s: unexpected instruction/call" % inst)
    if len(s.loops) != 1 or len(s.iv) != 3:
        raise AnalysisBroken("C18 %s: not a single loop with three loop-carried values (%d loops, %d values); a different exponentiation scheme must be re-confirmed by reading %s" % (inst, len(s.loops), len(s.iv), FILE))
    base, e = ('arg', 0), ('arg', 1)
    role = {}
    for pid, info in s.iv.items():
        init = info["init"]
        if const_val(init) == 1:
            role['r'] = pid
        elif init == base:
            role['b'] = pid
        elif init == e:
            role['p'] = pid
    if set(role) != {'r', 'b', 'p'}:
        inits = [i_["init"] for i_ in s.iv.values()]
        if all(const_val(x) is not None or x in (base, e) for x in inits):
            # the canonical loop with other start values: alpha + beta*p = e does not hold on entry
            rep.fail("C18.ipow", inst, FILE, "loop-carried values start at %s; expected r = 1, b = base, p = exponent (the exponent invariant alpha + beta*p = e does not hold on entry)" % [ir.show(x) for x in inits])
            return
        raise AnalysisBroken("C18 %s: loop-carried values start at %s, not at r = 1, b = base, p = exponent (a peeled or rotated square-and-multiply loop): the exponent invariant is stated for the canonical loop only; re-confirm %s by reading" % (
            inst, [ir.show(x)[:40] for x in inits], FILE))
    iv = {k: ('iv', pid, s.iv[pid]["init"]) for k, pid in role.items()}
    A, B_, P_, BIT = (ir.Poly.atom(x) for x in ("alpha", "beta", "p", "bit"))
    one = ir.Poly.const(Fraction(1))

    def low_bit_test(c):
        """-> True if c holds iff bit == 0, False if iff bit == 1, None otherwise"""
        neg = False
        if c[0] == 'not':
            neg, c = True, c[1]
        if c[0] == 'cmp' and c[1] in ('eq', 'ne'):
            a, b = c[2], c[3]
            if const_val(a) is not None:
                a, b = b, a
            if a[0] == 'op' and a[1] == 'and' and a[3] == iv['p'] and const_val(a[4]) == 1 and const_val(b) in (0, 1):
                zero = (c[1] == 'eq') == (const_val(b) == 0)
                return zero != neg
        if c[0] == 'cast' and c[1] == 'trunc' and c[3] == iv['p']:
            return neg          # trunc p to i1 is the low bit: true iff bit == 1
        return None

    def exp_of(t):
        t = ir.strip_casts(t, ("zext", "sext", "trunc"))
        if t == iv['r']:
            return A
        if t == iv['b']:
            return B_
        if const_val(t) == 1:
            return ir.Poly({})
        if t[0] == 'op' and t[1] == 'mul':
            x, y = exp_of(t[3]), exp_of(t[4])
            return None if x is None or y is None else x + y
        if t[0] == 'sel':
            z = low_bit_test(t[1])
            x, y = exp_of(t[2]), exp_of(t[3])
            if z is None and ('iv', role['p']) in ir.atoms(t[1]):
                raise WrongBit(ir.show(t[1]))
            if z is None or x is None or y is None:
                return None
            return (one - BIT) * x + BIT * y if z else BIT * x + (one - BIT) * y
        return None

    r1, b1, p1 = (s.iv_step(role[k]) for k in ('r', 'b', 'p'))
    why = None
    if any(len(x) != 1 or x[0] is None for x in (r1, b1, p1)):
        raise AnalysisBroken("C18 %s: several back edges" % inst)
    r1, b1, p1 = r1[0], b1[0], p1[0]
    try:
        ea, eb = exp_of(r1), exp_of(b1)
    except WrongBit as wb:
        rep.fail("C18.ipow", inst, FILE, "the multiplication is selected by %s, which is not the low bit of the remaining exponent" % str(wb)[:80])
        return
    halves = (p1[0] == 'op' and p1[1] == 'lshr' and p1[3] == iv['p'] and const_val(p1[4]) == 1) or (p1[0] == 'op' and p1[1] == 'udiv' and p1[3] == iv['p'] and const_val(p1[4]) == 2)
    if ea is None or eb is None:
        raise AnalysisBroken("C18 %s: loop body is not built from multiplications, 1 and a select on the exponent's low bit: r' = %s, b' = %s" % (inst, ir.show(r1)[:80], ir.show(b1)[:80]))
    if not halves:
        why = "the exponent is updated to %s, not halved (p >> 1)" % ir.show(p1)[:60]
    else:
        p_next = (P_ - BIT) * ir.Poly.const(Fraction(1, 2))
        lhs = ea + eb * p_next
        rhs = A + B_ * P_
        # bit is 0 or 1: bit*bit == bit
        def reduce(poly):
            out = {}
            for mon, c in poly.t.items():
                m = tuple(sorted(set(mon), key=repr)) if mon.count("bit") > 1 else mon
                if mon.count("bit") > 1:
                    m = tuple(sorted([x for x in mon if x != "bit"] + ["bit"], key=repr))
                out[m] = out.get(m, 0) + c
            return ir.Poly(out)
        if reduce(lhs) != reduce(rhs):
            names = {}
            why = "the invariant alpha + beta*p = e is not preserved by the loop body: after one round it reads %s" % reduce(lhs).show()
    if why is None:
        # exit: only when p >> 1 == 0 (p < 2), returning the updated r
        latch = [ir.common_lits(c) for c in getattr(s, "latch_cond", {}).values()]
        cont_ok = False
        for l in (latch[0] if latch else []):
            c, neg = (l[1], True) if l[0] == 'not' else (l, False)
            if c[0] == 'cmp':
                a, b = c[2], c[3]
                if a == iv['p'] and const_val(b) == 2 and ((c[1] == 'uge' and not neg) or (c[1] == 'ult' and neg)):
                    cont_ok = True
                if a == iv['p'] and const_val(b) == 1 and ((c[1] == 'ugt' and not neg) or (c[1] == 'ule' and neg)):
                    cont_ok = True
                if a == p1 and const_val(b) == 0 and ((c[1] == 'ne' and not neg) or (c[1] == 'eq' and neg)):
                    cont_ok = True
        if not cont_ok:
            why = "the loop does not continue exactly while p >> 1 != 0 (continuation: %s)" % ([ir.show(l)[:50] for l in latch[0]] if latch else "?")
        else:
            ok_ret = True
            for rc, rv in s.ret_cond:
                rv = ir.ungate(rv)
                leaves = []

                def collect(t):
                    if t[0] == 'sel':
                        collect(t[2])
                        collect(t[3])
                    else:
                        leaves.append(t)
                collect(rv)
                for lf in leaves:
                    if not (lf == r1 or const_val(lf) == 1):
                        ok_ret = False
                        why = "the value returned is %s, expected the updated accumulator (or 1 for exponent 0)" % ir.show(lf)[:80]
            if ok_ret:
                # the constant-1 return must be the e == 0 shortcut
                pass
    if why:
        rep.fail("C18.ipow", inst, FILE, why)
    else:
        rep.ok("C18.ipow", inst, sample={"instantiation": inst, "r'": ir.show(r1)[:80], "invariant": "alpha + beta*p = e (checked as a polynomial identity with p' = (p - bit)/2)"})


def run(rep, tier):
    hs = [h_rp2(T) for T in TYPES] + [h_ipow(T) for T in TYPES]
    harness.build(hs, "c18", extra=("-fno-unroll-loops",), includes="#include <cstdint>\n#include <covfie/core/utility/numeric.hpp>\n")
    for h in hs:
        inst = "%s<%s>" % (h.meta["kind"], h.meta["T"])
        if h.error:
            loc, msg = harness.first_error(h)
            rep.fail("C18.compile", inst, loc, "does not compile: " + msg)
            continue
        rep.ok("C18.compile", inst)
        if h.meta["kind"] == "round_pow2":
            check_rp2(rep, h)
        else:
            check_ipow(rep, h)
    c05.declare(rep)
    for r in ("C05.g", "C05.f", "C05.a", "C05.cuda", "C05.b", "C05.b-hilbert", "C05.d", "C05.e"):
        rep.rules.pop(r, None)
    sizing(rep, tier)
    return hs


def sizing(rep, tier):
    """the sizing clause: only the allocation rules of the conversion analysis"""
    class Only:
        def __init__(self, rep):
            self.rep = rep

        def __getattr__(self, k):
            return getattr(self.rep, k)

        def ok(self, rid, *a, **kw):
            if rid in self.rep.rules:
                self.rep.ok(rid, *a, **kw)

        def fail(self, rid, *a, **kw):
            if rid in self.rep.rules:
                self.rep.fail(rid, *a, **kw)
    hs = [h for h in relayout.build(tier) if h.meta["dst"] != "strided"]
    o = Only(rep)
    c05.run_conversions(o, tier, hs)


def check(tier):
    rep = Report("C18", tier, "proof")
    declare(rep)
    run(rep, tier)
    rep.assumptions = ["round_pow2: 1 <= i <= 2^(w-1) (the property's domain)", "ipow: multiplication modulo 2^w is a ring homomorphism from the integers",
                       "soundness of the two purpose-built domains' transfer functions (stated in the module docstring)",
                       "curve positions are below side^N for side = round_pow2(max extent) (C14: bit interleave; Hilbert walk not decided)"]
    return rep.finish(
        "Abstract interpretation of the two numeric loops in purpose-built domains over their optimised IR (back edge cut, loop-carried values symbolic), per unsigned width 8/16/32/64: for round_pow2 the domain "
        "'power of two whose half is below i' is shown inductive from the entry value, the step and the continuation guard, and the exit edge yields the least power of two >= i; for ipow the exponent invariant "
        "alpha + beta*p = e is propagated through the loop body and its preservation is a polynomial identity decided by canonicalisation. Both arguments hold for every input of the width at once. "
        "The storage-sizing consequence is decided at every Morton/Hilbert allocation site (expression form over all extents).",
        "bin/vcheck C18 (clang++ -O2 -fno-unroll-loops -emit-llvm | build/irdump | engine/rules/c18.py, relayout.py)",
        ["clang 14 -O2 IR faithful to source", "transfer functions of the P(i) and exponent domains", "engine/ir.py polynomial normal form"], exhaustive=True)
