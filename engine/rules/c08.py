"""C08  Truncated or mis-tagged input is rejected with an exception.

A structural argument over ALL truncation offsets and all altered words at once, from the optimised IR of every
layer's reader (engine/rules/io.py; values read are atoms rd#k, stream-state loads carry the number of opaque calls
made before them):
  C08.a  who may read: inside lib/, std::istream input members are used only by covfie::utility::read_binary<T>
         (every istream::read call site is inlined from it; no other std::istream member is called)
  C08.b  checked read: after every istream::read k the stream state is tested (failbit in the mask), and every later
         stream operation, every use of the bytes of read k (branch condition, call argument, stored value) and the
         normal return lie on the "state good" side of that test; the failing side reaches a throw
  C08.c  no abort: in the assertion-enabled build no __assert_fail is reachable in any reader
  C08.d  header/footer: both words of every header and footer are compared with the expected constants and the
         normal return requires all of them; each mismatch side reaches a throw
  C08.e  a tagged layer reads its header first and its footer last, before the object is returned
  C08.f/g  array payload: width word validated, every loop iteration performs a checked read (io_array.py)
"""
from .. import harness, ir
from ..common import Report, AnalysisBroken
from . import io, io_array


def declare(rep):
    rep.rule("C08.compile", "reader harness compiles (NDEBUG and assertion-enabled)", floor=20)
    rep.rule("C08.a", "the only stream operation of a reader is std::istream::read (each judged by C08.b); other istream members are not modelled (exit 2)", floor=20)
    rep.rule("C08.b", "every read is followed by a stream-state test guarding all later stream operations, uses of the bytes read and the normal return; failure throws", floor=60)
    rep.rule("C08.c", "no assertion is reachable in a reader (assertion-enabled build)", floor=20)
    rep.rule("C08.h", "exceptions raised while reading propagate: no stream/allocation/throw site unwinds into std::terminate", floor=20)
    rep.rule("C08.d", "header and footer words are compared with the expected constants; mismatch throws", floor=10)
    rep.rule("C08.e", "tagged layers read header first and footer last", floor=10)


READER_SIDE = (io.READ, "_ZN5verif7io_read", "__cxa_throw", "_Znam", "_Znwm")
TERMINATE = ("__clang_call_terminate", "_ZSt9terminatev")


def terminating_unwinds(fj):
    """invokes of stream/allocation/throw callees whose exceptional edge leads to std::terminate (a noexcept frame on the way)"""
    fn = ir.Func(fj)
    out = []
    for b in fn.blocks:
        t = b["insts"][-1]
        if t["op"] != "invoke":
            continue
        seen, work = set(), [t["unwind"]]
        while work:
            u = work.pop()
            if u in seen:
                continue
            seen.add(u)
            blk = fn.bid[u]
            if any(i["op"] in ("call", "invoke") and (i.get("callee") or "") in TERMINATE for i in blk["insts"]):
                out.append(t)
                break
            last = blk["insts"][-1]
            if last["op"] == "invoke":
                work.append(last["normal"])      # stay on the path that continues the unwinding
            else:
                work += fn.succs(blk)
    return out


def check_reader(rep, g, build):
    hr = g.hr
    m = hr.meta
    inst = "%s%s<%s,%d>/%s" % ("field " if m["field"] else "", m["layer"], m["S"], m["N"], build)
    file = io.layer_file(m["layer"])
    if hr.error:
        loc, msg = harness.first_error(hr)
        rep.fail("C08.compile", inst, loc, "reader does not compile: " + msg)
        return
    rep.ok("C08.compile", inst)
    s = g.sr
    R = g.R
    # C08.c
    from .io_array import dead
    asserts = [c for c in s.calls if c.name == "__assert_fail" and not dead(c.cond)]       # an assertion behind a test that already established it cannot fail
    if asserts:
        rep.fail("C08.c", inst, ir.where(asserts[0].inst), "an assertion can fail while reading (abort instead of exception)")
    else:
        rep.ok("C08.c", inst)
    tu = terminating_unwinds(hr.func)
    if tu:
        rep.fail("C08.h", inst, ir.where(tu[0]), "an exception raised by %s while reading (or while a reading exception unwinds) cannot propagate: a noexcept frame, e.g. a destructor, turns it into std::terminate (abort instead of exception)" % (tu[0].get("dcallee") or tu[0].get("callee") or "an indirect call")[:60])
    else:
        rep.ok("C08.h", inst)
    # C08.a: the only stream operation is istream::read (wherever it is written: the guard rule C08.b judges every read
    # after inlining); another istream member (formatted input, gcount, peek, seek) is outside the stream model
    other = [i for i in R if i["kind"] == "other-istream"]
    if other:
        rep.undecided("C08 %s: the reader uses %s at %s; the stream model knows istream::read and the state word only" % (inst, (other[0]["call"].dname or "")[:80], ir.where(other[0]["call"].inst)))
    else:
        rep.ok("C08.a", inst)
    reads = [i for i in R if i["kind"] == "raw"]
    throws = [c for c in s.calls if c.name == io.THROW]
    throw_lits = [ir.common_lits(c.cond) for c in throws]
    # C08.b
    events = []          # (call index order key, description, literals of its path condition, terms it uses)
    read_lits = {}
    for c in s.calls:
        if c.name == io.READ:
            read_lits[c.n] = ir.common_lits(c.cond)
        if c.name in (io.READ,) or (c.name or "").startswith(io.IOR) or (c.name or "") in ("_Znam", "_Znwm"):
            events.append((c.n, "call %s" % (c.dname or c.name)[:40], ir.common_lits(c.cond), list(c.args), c.inst))
    for cnd, val in s.ret_cond:
        events.append((10 ** 9, "normal return", ir.common_lits(cnd), [], None))
    for st in s.stores:
        if st.base == ('arg', hr.out_index):
            events.append((10 ** 9, "result", ir.common_lits(st.cond), [st.val], st.inst))
    for bc, cond, inst_ in s.branches:
        events.append((-1, "branch", ir.common_lits(bc), [cond], inst_))
    for r in reads:
        k = r["call"].n
        ri = "%s read#%d" % (inst, k)
        ok_lit = None
        for ev in events:
            for l in ev[2]:
                if io.state_ok_epoch(l, 0) == k + 1:
                    ok_lit = l
        if ok_lit is None:
            rep.fail("C08.b", ri, ir.where(r["call"].inst), "the stream state is not tested after this read; a truncated stream goes unnoticed here")
            continue
        why = None
        for (n, desc, lits, uses, where_) in events:
            uses_k = any(a[1] == k for u in uses for a in io.wr_atoms(u)) if uses else False
            if ir.FALSE in lits:
                continue        # only reachable by exceptional unwinding
            later = n > k and desc != "branch" and "operator new" not in desc and read_lits[k] <= lits
            if (later or uses_k) and ok_lit not in lits:
                why = "%s %s although the state test after read #%d may have failed" % (desc, "uses the bytes read" if uses_k else "is reached", k)
                loc = ir.where(where_) if where_ else file
                break
        neg = ir.mk_not(ok_lit)
        if why is None and not any(neg in tl for tl in throw_lits):
            why = "the failing side of the state test after read #%d does not reach a throw" % k
            loc = ir.where(r["call"].inst)
        if why:
            rep.fail("C08.b", ri, loc, why)
        else:
            rep.ok("C08.b", ri, sample={"reader": inst, "read": k, "bytes": r["bytes"], "guard": "stream-state test after the read guards all later events"} if len(rep.samples) < 4 else None)
    # C08.d / C08.e
    tagged = m["layer"] not in io.TRANSPARENT
    if (tagged or m["field"]) and len(g.ret_lits) == 1:
        lits = g.ret_lits[0]
        nf = m["nf"]
        tag_out = g.outs.get(8 * (nf + 1))
        tag = int(tag_out[1]) if tag_out and tag_out[0] == 'cf' else None
        frames = ([0xAB000000] if m["field"] else []) + ([tag] if tagged else [])
        good = True
        Rc = g.Rc if hasattr(g, "Rc") else io.canon(R)
        first, last = Rc[0], Rc[-1]
        nfr = len(frames)
        if first["kind"] != "raw" or last["kind"] != "raw" or first["bytes"] < 8 * nfr or last["bytes"] < 8 * nfr:
            rep.fail("C08.e", inst, file, "reader does not begin and end with %d header/footer word pairs" % nfr)
            good = False
        else:
            for d, t in enumerate(frames):
                words = [(first, 8 * d, io.MAGIC_HEADER), (first, 8 * d + 4, t), (last, last["bytes"] - 8 * (d + 1), io.MAGIC_FOOTER),
                         (last, last["bytes"] - 8 * (d + 1) + 4, (t + io.FOOTER_DELTA) & 0xFFFFFFFF)]
                for run_, off, const in words:
                    k, rel = io.run_read_at(run_, off)
                    wi = "%s word@%d%s" % (inst, off if run_ is first and off < 8 * nfr else run_["bytes"] - off, "" if run_ is first and off < 8 * nfr else " from end")
                    if k is None:
                        rep.undecided("C08 %s: a framing word straddles two stream reads; not decided" % wi)
                        good = False
                        continue
                    call = next(c for (o, sz, c) in run_["parts"] if c.n == k)
                    wlits = io.eq_literal(lits, k, const, rel)
                    if not wlits:
                        rep.fail("C08.d", wi, ir.where(call.inst), "the word read here is not required to equal 0x%08X" % const)
                        good = False
                        continue
                    if not all(any(ir.mk_not(lit) in tl or ir.occurs_positive(tc, ir.mk_not(lit)) for tl, tc in zip(throw_lits, [c.cond for c in throws])) for lit in wlits):
                        rep.fail("C08.d", wi, ir.where(call.inst), "a wrong word here does not lead to a throw")
                        good = False
        if good:
            rep.ok("C08.d", inst)
            rep.ok("C08.e", inst)


def run(rep, tier):
    specs = io.universe(tier)
    out = []
    for build, nd in (("NDEBUG", True), ("debug", False)):
        gs = io.build_pairs(specs, "c08" + build, ndebug=nd)
        for g in gs:
            if g.hr.error is None and not g.ok:
                # writer failed; reader facts are still needed
                g.sr = io.normalise_throws(ir.Sym(g.hr.func, epochs=True), g.hr.module)
                g.R = io.reader_items(g.sr)
                g.Rc = io.canon(g.R)
                g.outs = {k: ir.ungate(v) for k, v in g.sr.outputs(g.hr.out_index).items()}
                g.ret_lits = [list(ir.common_lits(c)) for c, _ in g.sr.ret_cond]
            check_reader(rep, g, build)
        out += gs
    io_array.run_c08(rep, tier)
    return out


def check(tier):
    rep = Report("C08", tier, "other")
    declare(rep)
    io_array.declare_c08(rep)
    gs = run(rep, tier)
    if not rep.violations:
        from . import c02
        c02.param_lint(rep)
    rep.assumptions = ["std::istream::read sets failbit when fewer bytes than requested are available (iostream contract), so 'state tested after every read' covers every truncation offset",
                       "streams that fail and later recover are not considered",
                       "a mis-typed stack is detected through its tags: distinct layers have distinct tags (C07.c) and the reader requires its own"]
    return rep.finish(
        "Structural argument over all crash points: in the optimised IR of every layer's reader (and of field(std::istream&)), each std::istream::read is followed by a test of the stream's fail/bad bits whose "
        "failing edge reaches a throw and whose passing edge guards every later stream operation, every use of the bytes just read and the normal return; every header/footer word is compared with its expected "
        "constant with a throwing mismatch edge; no assertion is reachable in the assertion-enabled build; and no code other than utility::read_binary touches the stream. Hence a stream truncated at ANY byte, or with "
        "any framing word altered, raises an exception before anything is decided on unread data.",
        "bin/vcheck C08 (clang++ -O2 -emit-llvm [-UNDEBUG] | build/irdump | engine/rules/io.py)",
        ["clang 14 -O2 IR faithful to source", "iostream contract of istream::read", "engine/ir.py path conditions, read atoms and state-load epochs"])
