"""C04  Nearest-neighbour lookup returns the value at a closest lattice point.

E3 / D-route.  nearest_neighbour<probe<I,N,T,M>, vd<F,N>>: exactly one backend
query; argument k is an integer conversion of exactly one round-to-nearest
operation applied to exactly c_k - same floating type as the coordinate, no
narrowing (fptrunc) or other arithmetic on the way; the rounding operation must
come from the whitelist below (an unrecognised idiom is exit 2, not a verdict).
"Within one half" then rests on the libm / IEEE contract of that operation
under the default rounding mode.
"""
from .. import harness, ir
from ..common import Report, AnalysisBroken
from ..harness import Harness, STYPES

FILE = "lib/core/covfie/core/backend/transformer/nearest_neighbour.hpp"

# name -> floating type it operates in (None: overloaded intrinsic, type taken from the operand)
ROUNDERS = {
    "lrintf": "float", "lrint": "double", "llrintf": "float", "llrint": "double", "lroundf": "float", "lround": "double",
    "llroundf": "float", "llround": "double", "rintf": "float", "rint": "double", "nearbyintf": "float", "nearbyint": "double",
    "roundf": "float", "round": "double",
    "llvm.lrint": None, "llvm.llrint": None, "llvm.lround": None, "llvm.llround": None, "llvm.rint": None, "llvm.nearbyint": None,
    "llvm.round": None, "llvm.roundeven": None,
}
NOT_NEAREST = {"llvm.trunc", "llvm.floor", "llvm.ceil", "truncf", "trunc", "floorf", "floor", "ceilf", "ceil"}


def make(N, M, F, I, T="float"):
    fct, ict = STYPES[F][0], STYPES[I][0]
    args = [(fct, ('c', k)) for k in range(N)] + [("std::uint64_t", 'tag')]
    body = """
  using P = verif::vprobe<%s, %d, %s, %d>;
  using B = nearest_neighbour<P, verif::vd<%s, %d>>;
  B::owning_data_t o(B::configuration_t{}, P::owning_data_t(P::configuration_t{a%d}));
  B::non_owning_data_t v(o);
  auto r = v.at({%s});
  %s
""" % (ict, N, T, M, fct, N, N, ", ".join("a%d" % k for k in range(N)), " ".join("out[%d] = r[%d];" % (q, q) for q in range(M)))
    return Harness("nn_%s%d_%s_%s%d" % (F, N, I, T, M), args, body, out=(T, M), meta={"N": N, "M": M, "F": F, "I": I, "T": T})


def classify(t, F):
    """-> ('ok', rounder, operand) | ('bad', reason) | ('unknown', text)"""
    t = ir.strip_casts(t)
    if t[0] == 'cast' and t[1] in ('fptosi', 'fptoui'):
        inner = t[3]
        if inner[0] == 'fn':
            t = inner
        elif inner[0] == 'op' and inner[1] == 'fadd' and (inner[4] == ('cf', 0.5, inner[2]) or inner[3] == ('cf', 0.5, inner[2])):
            return ('bad', "int(x + 0.5) is not round-to-nearest: the sum x + 0.5 is itself rounded, so x = 0.5 - 1ulp selects lattice point 1")
        else:
            return ('bad', "coordinate is converted to an integer by truncation, not by rounding to nearest: %s" % ir.show(t))
    if t[0] == 'fn':
        name = t[1]
        if name in NOT_NEAREST:
            return ('bad', "rounding operation %s is not round-to-nearest" % name)
        if name not in ROUNDERS:
            return ('unknown', ir.show(t))
        fty = ROUNDERS[name]
        return ('ok', name, t[3], fty)
    return ('unknown', ir.show(t))


def declare(rep):
    rep.rule("C04.compile", "nearest_neighbour<probe<I,N,T,M>, vd<F,N>> lookup harness compiles", floor=6)
    rep.rule("C04.one-query", "exactly one unconditional backend query on the view's own backend with N components", floor=6)
    rep.rule("C04.round", "argument k = int(round-to-nearest(c_k)): whitelisted rounding, applied to exactly c_k, in the coordinate's own floating type", floor=10)
    rep.rule("C04.out", "result component q is component q of the queried value", floor=6)


def harnesses(tier):
    if tier == "quick":
        combos = [(N, (N % 3) + 1, F, I) for N in (1, 2, 3) for F in ("float", "double") for I in ("size_t", "int")] + [(4, 2, "double", "unsigned")]
    else:
        combos = [(N, M, F, I) for N in (1, 2, 3, 4) for M in (1, 2, 3, 4) for F in ("float", "double") for I in ("size_t", "unsigned", "int")]
    hs = [make(N, M, F, I) for (N, M, F, I) in combos]
    return hs


def run(rep, tier):
    hs = harnesses(tier)
    harness.build(hs, "c04")
    pending = []
    for h in hs:
        N, M, F, I = h.meta["N"], h.meta["M"], h.meta["F"], h.meta["I"]
        inst = "nearest_neighbour<%s^%d over %s, M=%d>" % (F, N, I, M)
        if h.error:
            loc, msg = harness.first_error(h)
            rep.fail("C04.compile", inst, loc, "does not compile: " + msg)
            continue
        rep.ok("C04.compile", inst)
        s = ir.Sym(h.func)
        if s.unknown:
            raise AnalysisBroken("C04 %s: unmodelled instruction %s" % (inst, s.unknown[0]["op"]))
        sinks = s.opaque_calls("_ZN5verif4sink")
        others = [c for c in s.calls if c not in sinks]
        if len(sinks) != 1 or sinks[0].cond != ir.TRUE or others or len(sinks[0].args) != N + 1 or sinks[0].args[0] != h.atom('tag'):
            rep.fail("C04.one-query", inst, FILE, "expected one unconditional backend query with %d components; found %d queries, other calls %s" % (N, len(sinks), [c.dname for c in others][:3]))
            continue
        rep.ok("C04.one-query", inst)
        call = sinks[0]
        for k in range(N):
            ki = "%s[%d]" % (inst, k)
            deps = {a for a in ir.atoms(call.args[1 + k]) if a[0] == 'arg'}
            if deps != {h.atom(('c', k))}:
                rep.fail("C04.round", ki, ir.where(call.inst), "backend index component %d depends on coordinate component(s) %s; it may depend on component %d only" % (
                    k, sorted(a[1] for a in deps), k))
                continue
            r = classify(call.args[1 + k], F)
            if r[0] == 'unknown':
                pending.append("C04 %s: unrecognised rounding idiom %s (extend ROUNDERS after reading the code)" % (ki, r[1][:160]))
                continue
            if r[0] == 'bad':
                rep.fail("C04.round", ki, ir.where(call.inst), r[1])
                continue
            _, name, operand, fty = r
            if operand != h.atom(('c', k)):
                if ir.strip_casts(operand, ("fptrunc", "fpext")) == h.atom(('c', k)):
                    rep.fail("C04.round", ki, ir.where(call.inst), "%s coordinate is converted to another precision before rounding: %s(%s)" % (F, name, ir.show(operand)))
                else:
                    rep.fail("C04.round", ki, ir.where(call.inst), "rounded value is %s, expected exactly coordinate component %d" % (ir.show(operand), k))
                continue
            if fty is not None and fty != F:
                rep.fail("C04.round", ki, ir.where(call.inst), "%s rounds in %s but the coordinate is %s" % (name, fty, F))
                continue
            rep.ok("C04.round", ki, sample={"instance": ki, "argument": ir.show(call.args[1 + k])} if k == 0 and N == 2 else None)
        outs = s.outputs(h.out_index)
        good = all(outs.get(4 * q) == ('ld', ('ret', call.n), 4 * q, 4, 'float', 0) for q in range(M))
        if good:
            rep.ok("C04.out", inst)
        else:
            rep.fail("C04.out", inst, FILE, "result is not the queried value's components")
    if pending and not rep.violations:
        raise AnalysisBroken(pending[0])
    return hs


def check(tier):
    rep = Report("C04", tier, "other")
    declare(rep)
    hs = run(rep, tier)
    rep.assumptions = ["default floating-point environment (round-to-nearest)", "libm contract: the whitelisted functions round to a nearest integer (ties differ, both within one half)",
                       "coordinates in (-0.5, extent-0.5): the integer conversion after rounding is exact"]
    rep.extra["instantiations"] = [h.name for h in hs]
    rep.extra["rounding_whitelist"] = sorted(ROUNDERS)
    return rep.finish(
        "Value-identity (D-route) reading of the optimised IR of nearest_neighbour::at over the opaque probe: one query, each argument is an integer conversion of a whitelisted "
        "round-to-nearest operation applied to exactly the matching coordinate component with no precision change before it - for float and for double coordinates.",
        "bin/vcheck C04 (clang++ -O2 -emit-llvm | build/irdump | engine/ir.py)",
        ["clang 14 -O2 IR faithful to source", "libm/IEEE semantics of the whitelisted rounding functions"])
