"""G-IO: serialisation grammar of every layer, extracted from optimised IR (shared by C06, C07, C08).

For each layer over the opaque probe backend two harnesses are compiled: a WRITER (object built from scalar
arguments, then write_binary) and a READER (read_binary, then every configuration field read back).  The stream
operations std::ostream::write / std::istream::read are out-of-line library functions, i.e. opaque calls in the IR;
the probe's own serialisation is the opaque pair verif::io_write / verif::io_read (a DELEGATE item).

  writer sequence W: [RAW(bytes, content) | DELEGATE], content = what the written bytes hold (constants, or the
                     harness argument each field was built from)
  reader sequence R: [RAW(bytes) | DELEGATE]; every value the reader uses is an atom rd#k[offset:size] naming the
                     bytes produced by read k; loads of the stream's state are tagged with the number of opaque
                     calls made so far, so "state tested after read k" is a recognisable literal of a path condition
"""
import re

from .. import common, harness, ir
from ..common import AnalysisBroken
from ..harness import Harness, STYPES
from . import c17

WRITE = "_ZNSo5writeEPKcl"
READ = "_ZNSi4readEPcl"
IOW = "_ZN5verif8io_write"
IOR = "_ZN5verif7io_read"
THROW = "__cxa_throw"
ABORTS = ("abort", "_ZSt9terminatev", "__assert_fail", "exit", "_exit", "quick_exit", "__clang_call_terminate", "__cxa_pure_virtual", "__stack_chk_fail", "_ZSt10unexpectedv")


def normalise_throws(s, module):
    """A call to a [[noreturn]] helper of the library whose body (dumped with the harness) raises an exception and calls
    nothing of the abort family is a throw site like `throw` itself (error reporting moved into a helper function)."""
    for c in s.calls:
        if c.name in (THROW,) + ABORTS or "noreturn" not in (c.inst.get("cattrs") or []):
            continue
        fj = (module or {}).get("functions", {}).get(c.name)
        if not fj:
            continue
        callees = {i.get("callee") for b in fj["blocks"] for i in b["insts"] if i["op"] in ("call", "invoke")}
        if any(x in ABORTS for x in callees if x):
            continue
        if THROW in callees or any((x or "").startswith(("_ZSt", "_ZNSt")) and "__throw_" in (x or "") for x in callees):
            c.helper = c.name
            c.name = THROW
    return s
MAGIC_HEADER = 0xC04F1EAB
MAGIC_FOOTER = 0xC04F1E70
FOOTER_DELTA = 0x20000000

T_DIR = "lib/core/covfie/core/backend/transformer/"
BIO = "lib/core/covfie/core/utility/binary_io.hpp"

TAGGED = ["clamp", "backup", "affine", "strided", "morton", "hilbert", "constant"]
TRANSPARENT = ["linear", "nearest_neighbour", "shuffle", "covariant_cast", "dereference"]


def layer_file(layer):
    if layer in ("constant", "identity", "array"):
        return "lib/core/covfie/core/backend/primitive/%s.hpp" % layer
    if layer == "field":
        return "lib/core/covfie/core/field.hpp"
    return T_DIR + layer + ".hpp"


def transparent_spec(layer, N, M=2):
    if layer in ("linear", "nearest_neighbour"):
        P = "verif::vprobe<std::size_t, %d, float, %d>" % (N, M)
        B = "%s<P, verif::vd<float, %d>>" % (layer, N)
    elif layer == "shuffle":
        P = "verif::vprobe<float, %d, float, %d>" % (N, M)
        B = "shuffle<P, std::make_index_sequence<%d>>" % N
    elif layer == "covariant_cast":
        P = "verif::vprobe<float, %d, float, %d>" % (N, M)
        B = "covariant_cast<double, P>"
    else:
        P = "verif::vprobe<float, %d, float, %d>" % (N, M)
        B = "dereference<P>"
    return P, B, [], "std::monostate{}", []


def spec(layer, N, S, M=2):
    if layer in TRANSPARENT:
        return transparent_spec(layer, N, M)
    if layer == "identity":
        return None, "identity<verif::vd<%s, %d>>" % (STYPES[S][0], N), [], "std::monostate{}", []
    return c17.layer_spec(layer, N, S, M)


def h_writer(layer, N, S, field=False):
    P, B, fields, cfg, read = spec(layer, N, S)
    nf = len(fields)
    args = list(fields) + ([("std::uint64_t", 'tag')] if P else []) + [("std::ostream *", 'os')]
    si = len(args) - 1
    body = ("  using P = %s;\n" % P if P else "") + "  using B = %s;\n" % B
    if field:
        pack = "%s%s" % (cfg, ", P::configuration_t{a%d}" % nf if P else "")
        body += "  covfie::field<B> f(covfie::make_parameter_pack(%s));\n  f.dump(*a%d);\n" % (pack, si)
    else:
        if P:
            body += "  B::owning_data_t o(%s, P::owning_data_t(P::configuration_t{a%d}));\n" % (cfg, nf)
        elif layer == "identity":
            body += "  B::owning_data_t o;\n"
        else:
            body += "  B::owning_data_t o(%s);\n" % cfg
        body += "  B::owning_data_t::write_binary(*a%d, o);\n" % si
    return Harness("iow_%s%s_%s%d" % ("field_" if field else "", layer, S, N), args, body,
                   meta={"layer": layer, "N": N, "S": S, "nf": nf, "probe": bool(P), "field": field, "fields": fields, "stream": si})


def h_reader(layer, N, S, field=False):
    P, B, fields, cfg, read = spec(layer, N, S)
    nf = len(fields)
    args = [("std::istream *", 'is')]
    body = ("  using P = %s;\n" % P if P else "") + "  using B = %s;\n" % B
    if field:
        body += "  covfie::field<B> f(*a0);\n  const auto & co = f.backend();\n"
    else:
        body += "  B::owning_data_t o = B::owning_data_t::read_binary(*a0);\n  const B::owning_data_t & co = o;\n"
    if read:
        body += "  auto c = co.get_configuration();\n  " + "\n  ".join(read) + "\n"
    if P:
        body += "  out[%d] = static_cast<double>(co.get_backend().get_configuration().tag);\n" % nf
    body += "  out[%d] = static_cast<double>(B::IO_MAGIC_HEADER);\n" % (nf + 1)
    return Harness("ior_%s%s_%s%d" % ("field_" if field else "", layer, S, N), args, body, out=("double", nf + 2),
                   meta={"layer": layer, "N": N, "S": S, "nf": nf, "probe": bool(P), "field": field, "fields": fields})


# --------------------------------------------------------------------------
# extraction
# --------------------------------------------------------------------------
def const_of_global(module, name):
    g = module["globals"].get(name)
    if not g or "init" not in g:
        return None
    i = g["init"]
    if i.get("k") == "ci":
        return int(i["v"])
    return None


def content_of(call, argi, nbytes, module, aw=None):
    """what the nbytes at pointer argument argi hold when `call` executes: list of (offset, size, term)"""
    p = call.args[argi]
    if p[0] != 'ptr':
        return None
    base, off = p[1], p[2]
    if base[0] == 'global':
        v = const_of_global(module, base[1])
        return [(0, nbytes, ('ci', v, nbytes * 8))] if v is not None and off == 0 else None
    if base[0] == 'alloca' and isinstance(off, int):
        snap = getattr(call, "snap", {}).get(argi, {})
        items = []
        for o, (sz, v) in snap.items():
            if isinstance(o, int) and off <= o and o + sz <= off + nbytes:
                if v[0] == 'vec':
                    continue
                items.extend(split_packed(o - off, sz, v, aw))
            elif isinstance(o, tuple) and o[0] == 'memset' and o[1] <= off and off + nbytes <= o[1] + o[2]:
                items.append((0, nbytes, ('ci', 0, nbytes * 8)))
        return sorted(items, key=lambda x: x[0])
    return None


def split_packed(off, sz, v, aw=None):
    """a stored integer that packs several scalars (or | shl | zext of bit-cast values) is split into the
    scalars it is made of, by bit provenance"""
    if v[0] in ('arg', 'ld', 'wr', 'ci', 'cf', 'call') or not (ir.term_type(v) or '').startswith('i'):
        return [(off, sz, v)]
    bits = ir.to_bits(v, sz * 8, aw or {})
    out = []
    i = 0
    while i < len(bits):
        b = bits[i]
        if isinstance(b, tuple) and b[0] == 'in' and b[2] == 0 and i % 8 == 0:
            a = b[1]
            w = ir.type_bits(ir.term_type(a)) or (aw or {}).get(a) or next((k for k in (8, 16, 32, 64) if i + k <= len(bits) and all(
                isinstance(bits[i + j], tuple) and bits[i + j][:2] == ('in', a) and bits[i + j][2] == j for j in range(k)) and
                (i + k == len(bits) or not (isinstance(bits[i + k], tuple) and bits[i + k][:2] == ('in', a)))), None)
            if w and i + w <= len(bits) and all(isinstance(bits[i + j], tuple) and bits[i + j] == ('in', a, j) for j in range(w)):
                out.append((off + i // 8, w // 8, a))
                i += w
                continue
        return [(off, sz, v)]
    return out


def norm_rd(t):
    """trunc / lshr of a wider read atom -> the read atom of exactly those bytes"""
    if not isinstance(t, tuple) or t[0] == 'wr':
        return t
    w = ir.type_bits(ir.term_type(t))
    if not w or not (ir.term_type(t) or '').startswith('i'):
        if t[0] == 'cast' and t[1] == 'bitcast':
            inner = norm_rd(t[3])
            if inner[0] == 'wr':
                return inner[:5] + (t[2],)
        return t
    aw = {a: a[4] * 8 for a in ir.atoms(t) if a[0] == 'wr' and a[3] is not None}
    if len(aw) != 1:
        return t
    bits = ir.to_bits(t, w, aw)
    a = next(iter(aw))
    if all(isinstance(b, tuple) and b[0] == 'in' and b[1] == a for b in bits):
        i0 = bits[0][2]
        if i0 % 8 == 0 and all(b[2] == i0 + j for j, b in enumerate(bits)):
            return ('wr', a[1], a[2], a[3] + i0 // 8, w // 8, t[2] if len(t) > 2 and isinstance(t[2], str) else a[5])
    return t


def writer_items(s, module, stream_arg):
    items = []
    for c in s.calls:
        if c.name == WRITE:
            n = c.args[2]
            if n[0] != 'ci':
                raise AnalysisBroken("ostream::write with a non-constant size at %s" % ir.where(c.inst))
            items.append({"kind": "raw", "bytes": n[1], "content": content_of(c, 1, n[1], module, s.atom_bits), "call": c})
        elif c.name and c.name.startswith(IOW):
            items.append({"kind": "delegate", "tag": c.args[1], "call": c})
        elif c.name and c.name.startswith("_ZNSo"):
            items.append({"kind": "other-ostream", "call": c})
    return items


def reader_items(s):
    items = []
    for c in s.calls:
        if c.name == READ:
            n = c.args[2]
            if n[0] != 'ci':
                raise AnalysisBroken("istream::read with a non-constant size at %s" % ir.where(c.inst))
            items.append({"kind": "raw", "bytes": n[1], "call": c})
        elif c.name and c.name.startswith(IOR):
            items.append({"kind": "delegate", "call": c})
        elif c.name and c.name.startswith("_ZNSi"):
            items.append({"kind": "other-istream", "call": c})
    return items


def state_ok_epoch(lit, stream_arg):
    """if lit is `(stream state & mask) == 0` with failbit in the mask (or state == 0), return the epoch of the state load"""
    if lit[0] != 'cmp' or lit[1] != 'eq':
        return None
    a, b = lit[2], lit[3]
    if b != ('ci', 0, 32):
        return None
    mask = None
    if a[0] == 'op' and a[1] == 'and' and a[4][0] == 'ci':
        mask = a[4][1]
        a = a[3]
    if a[0] != 'ld':
        return None
    deps = ir.atoms(a)
    if not any(d[0] == 'ld' and d[1] == ('arg', stream_arg) for d in deps) and a[1] != ('arg', stream_arg):
        return None
    if mask is not None and not (mask & 4):
        return None
    return a[5]


def wr_atoms(t):
    return {a for a in ir.atoms(t) if a[0] == 'wr'}


def bit_constraints(lit):
    """{(read call, bit index within that read): 0|1} required by an equality literal `expr == constant`, for every bit of
    expr that is a bit of a read atom (D-bits provenance through trunc/lshr/and/zext); {} if the literal is not of that kind"""
    if lit[0] != 'cmp' or lit[1] != 'eq':
        return {}
    for x, y in ((lit[2], lit[3]), (lit[3], lit[2])):
        if y[0] != 'ci':
            continue
        w = y[2]
        aw = {a: a[4] * 8 for a in ir.atoms(x) if a[0] == 'wr' and a[3] is not None}
        if not aw or w > 64:
            continue
        bits = ir.to_bits(x, w, aw)
        out = {}
        for j, b in enumerate(bits):
            want = (y[1] >> j) & 1
            if isinstance(b, tuple) and b[0] == 'in' and b[1][0] == 'wr':
                out[(b[1][1], 8 * b[1][3] + b[2])] = want
            elif b in (0, 1):
                if b != want:
                    return {}          # unsatisfiable literal: constrains nothing usefully
            else:
                return {}              # an unknown bit takes part: no exact statement about the read's bits
        return out
    return {}


def eq_literal(lits, wr_call, const, rel=0, size=4):
    """the literals among lits that together require bytes [rel, rel+size) of read wr_call to equal const (little endian),
    or None.  A comparison may cover more than the word (two adjacent words read as one struct and compared together) or
    less (compared half by half)."""
    need = {(wr_call, 8 * rel + j): (const >> j) & 1 for j in range(8 * size)}
    used = []
    for l in lits:
        c = bit_constraints(l)
        hit = {k: v for k, v in c.items() if k in need}
        if hit:
            if any(need[k] != v for k, v in hit.items()):
                return None
            for k in hit:
                need[k] = None
            used.append(l)
    if any(v is not None for v in need.values()):
        return None
    return used


def canon(items):
    """merge consecutive RAW items into byte runs: the stream's grammar does not depend on how many calls emit a run.
    -> [{"kind": "raw", "bytes": total, "content": [(abs off, size, term)], "parts": [(abs off, size, call)]} | {"kind": "delegate", ...}]"""
    out = []
    for it in items:
        if it["kind"] == "raw":
            if not out or out[-1]["kind"] != "raw":
                out.append({"kind": "raw", "bytes": 0, "content": [], "parts": [], "unknown_content": False})
            run = out[-1]
            base = run["bytes"]
            if it.get("content") is None and "content" in it:
                run["unknown_content"] = True
            for (o, sz, t) in (it.get("content") or []):
                run["content"].append((base + o, sz, ir.ungate(t)))
            run["parts"].append((base, it["bytes"], it["call"]))
            run["bytes"] += it["bytes"]
        else:
            out.append(dict(it))
    return out


def run_word(run, off):
    """the 4-byte constant written at byte `off` of a run, or None"""
    for (o, sz, t) in run["content"]:
        if o == off and sz == 4 and t[0] == 'ci':
            return t[1]
    return None


def run_read_at(run, off, size=4):
    """(call index, offset within that read) of the read covering [off, off+size) of a reader run"""
    for (o, sz, c) in run["parts"]:
        if o <= off and off + size <= o + sz:
            return c.n, off - o
    return None, None


def summarise(segs, names=None):
    """names: {arg atom: field name} - with it, the summary also records which configuration field lies at which byte"""
    out = []
    for sg in segs:
        if sg["kind"] == "raw":
            parts = []
            for (o, sz, t) in sorted(sg["content"], key=lambda x: x[0]):
                if t[0] == 'ci' and sz == 4:
                    parts.append("%d:0x%X" % (o, t[1]))
                elif names and t in names:
                    parts.append("%d:%s/%d" % (o, names[t], sz))
            consts = ",".join(parts)
            out.append("RAW(%d)%s" % (sg["bytes"], "{%s}" % consts if consts else ""))
        else:
            out.append(sg["kind"].upper())
    return out


class Grammar:
    """facts of one writer/reader pair"""

    def __init__(self, hw, hr):
        self.hw, self.hr = hw, hr
        self.ok = hw.error is None and hr.error is None
        if not self.ok:
            return
        self.sw = ir.Sym(hw.func, epochs=True)
        self.sr = normalise_throws(ir.Sym(hr.func, epochs=True), hr.module)
        self.W = writer_items(self.sw, hw.module, hw.meta["stream"])
        self.R = reader_items(self.sr)
        self.Wc = canon(self.W)
        self.Rc = canon(self.R)
        self.outs = {k: ir.ungate(v) for k, v in self.sr.outputs(hr.out_index).items()}
        self.ret_lits = [list(ir.common_lits(c)) for c, _ in self.sr.ret_cond]

    def field_names(self):
        out = {}
        for k, (_, r) in enumerate(self.hw.args[:self.hw.meta["nf"]]):
            out[('arg', k)] = "".join(str(x) for x in r) if isinstance(r, tuple) else str(r)
        return out

    def summary(self):
        return {"W": summarise(self.Wc, self.field_names()), "R": ["RAW(%d)" % sg["bytes"] if sg["kind"] == "raw" else sg["kind"].upper() for sg in self.Rc]}


def build_pairs(specs, tag, ndebug=True):
    """specs: [(layer, N, S, field)] -> [Grammar]"""
    hws = [h_writer(l, N, S, f) for (l, N, S, f) in specs]
    hrs = [h_reader(l, N, S, f) for (l, N, S, f) in specs]
    harness.build(hws + hrs, "io_" + tag, per_tu=6, ndebug=ndebug, callees=True)
    return [Grammar(a, b) for a, b in zip(hws, hrs)]


def universe(tier):
    specs = []
    Ns = (1, 2, 3) if tier == "quick" else (1, 2, 3, 4)
    for N in Ns:
        specs.append(("clamp", N, "float" if N % 2 else "int", False))
        specs.append(("backup", N, "double" if N % 2 else "size_t", False))
        specs.append(("affine", N, "float" if N % 2 else "double", False))
        specs.append(("strided", N, "size_t", False))
        specs.append(("morton", N, "size_t", False))
        specs.append(("constant", N, "float", False))
        specs.append(("identity", N, "float", False))
        for l in TRANSPARENT:
            specs.append((l, N, "float", False))
    specs.append(("hilbert", 2, "size_t", False))
    specs.append(("clamp", 2, "float", True))
    specs.append(("strided", 3, "size_t", True))
    specs.append(("linear", 3, "float", True))
    return specs


# --------------------------------------------------------------------------
# IO7: a reader may reject a stream only for framing, width or stream-state reasons
# --------------------------------------------------------------------------
def unjustified_throws(s, stream_arg=0):
    """throw sites not explained by a failed stream-state test or by bytes read differing from a constant (framing word,
    width word).  The deciding literals of a throw are those whose negation the normal return requires; if there are
    none (throws inside a summarised loop), any failing literal of an accepted kind on the throw's path explains it."""
    ret_lits = None
    for c, _ in s.ret_cond:
        cl = ir.common_lits(c)
        ret_lits = cl if ret_lits is None else (ret_lits & cl)
    ret_lits = ret_lits or frozenset()

    def kind(l):
        pos, core = (False, l[1]) if isinstance(l, tuple) and l and l[0] == 'not' else (True, l)
        if not isinstance(core, tuple) or not core:
            return None
        if not pos and state_ok_epoch(core, stream_arg) is not None:
            return "state"
        if core[0] == 'cmp' and core[1] in ('eq', 'ne'):
            a, b = core[2], core[3]
            failing = (core[1] == 'eq') != pos
            if failing and ((a[0] == 'wr' and b[0] == 'ci') or (b[0] == 'wr' and a[0] == 'ci')):
                return "const"
            if failing and bit_constraints(('cmp', 'eq', a, b)):
                return "const"          # some bytes of a read (part of a wider read, masked or shifted) differ from a constant
            if (a[0] == 'wr' or b[0] == 'wr' or any(x[0] == 'wr' for x in ir.atoms(core))):
                return "data"
        if core[0] == 'cmp':
            if any(x[0] == 'wr' for x in ir.atoms(core)):
                return "data"
        return None
    bad = []
    for c in s.calls:
        if c.name != THROW:
            continue
        lits = []

        def collect(t):
            if isinstance(t, tuple) and t and t[0] in ('and', 'or'):
                collect(t[1])
                collect(t[2])
            else:
                lits.append(t)
        collect(c.cond)
        deciding = [l for l in lits if ir.mk_not(l) in ret_lits]
        if deciding:
            kinds = {kind(l) for l in deciding}
            if "data" in kinds and not (kinds & {"state", "const"}):
                bad.append(c)
        else:
            if not any(kind(l) in ("state", "const") for l in lits):
                bad.append(c)
    return bad


def h_real_reader(layer, N, T, M):
    a = "array<verif::vd<%s, %d>>" % (T, M)
    B = {"strided": "strided<verif::vd<std::size_t, %d>, %s>" % (N, a), "morton": "morton<verif::vd<std::size_t, %d>, %s, false>" % (N, a),
         "hilbert": "hilbert<verif::vd<std::size_t, 2>, %s>" % a, "stack": "affine<linear<strided<verif::vd<std::size_t, %d>, %s>>>" % (N, a)}[layer]
    body = "  using O = %s::owning_data_t;\n  new (a1) O(O::read_binary(*a0));\n" % B
    return Harness("iorr_%s_%d_%s%d" % (layer, N, T, M), [("std::istream *", 'is'), ("void *", 'result')], body, meta={"layer": layer, "N": N, "T": T, "M": M})


def real_readers(tier):
    hs = [h_real_reader("strided", 3, "float", 3), h_real_reader("morton", 2, "float", 3), h_real_reader("morton", 3, "double", 2), h_real_reader("hilbert", 2, "float", 2), h_real_reader("stack", 3, "float", 3)]
    harness.build(hs, "io_real", per_tu=2, callees=True)
    return hs
