"""array backend payload: float width, element count, then scalars in storage order (loops).

The writer and reader of covfie::backend::array each contain one loop over the elements (the inner loop over the
M components is fully unrolled).  Sym(cut_loops=True) reads the function with the back edge cut and the induction
variable as an opaque atom, which gives: prefix items, the items of ONE generic iteration with their addresses as
functions of the induction variable, the loop's entry/continue conditions, suffix items.
"""
from .. import harness, ir
from ..common import AnalysisBroken
from ..harness import Harness
from . import io

FILE = "lib/core/covfie/core/backend/primitive/array.hpp"
TAG = 0xAB010000
SZ = {"float": 4, "double": 8}


def h_w(T, M):
    body = "  using B = array<verif::vd<%s, %d>>;\n  B::owning_data_t::write_binary(*a1, *static_cast<const B::owning_data_t *>(a0));\n" % (T, M)
    return Harness("ioaw_%s%d" % (T, M), [("const void *", 'obj'), ("std::ostream *", 'os')], body, meta={"T": T, "M": M})


def h_r(T, M):
    body = "  using B = array<verif::vd<%s, %d>>;\n  new (a1) B::owning_data_t(B::owning_data_t::read_binary(*a0));\n" % (T, M)
    return Harness("ioar_%s%d" % (T, M), [("std::istream *", 'is'), ("void *", 'result')], body, meta={"T": T, "M": M})


def combos(tier):
    return [(T, M) for T in ("float", "double") for M in ((1, 3) if tier == "quick" else (1, 2, 3, 4))]


_cache = {}


def facts(tier, ndebug=True):
    key = (tier, ndebug)
    if key in _cache:
        return _cache[key]
    hws = [h_w(T, M) for T, M in combos(tier)]
    hrs = [h_r(T, M) for T, M in combos(tier)]
    harness.build(hws + hrs, "ioarr%d" % ndebug, per_tu=4, ndebug=ndebug)
    out = []
    for hw, hr in zip(hws, hrs):
        out.append((hw, hr, analyse_writer(hw) if not hw.error else None, analyse_reader(hr) if not hr.error else None))
    _cache[key] = out
    return out


def dyn_parts(off):
    """('dyn', const, ((scale, term),...)) -> (const, [(scale, term)]) ; int -> (int, [])"""
    if isinstance(off, int):
        return off, []
    if off[0] == 'dyn':
        c, terms = off[1], off[2]
        if isinstance(c, tuple) and c[0] == 'dyn':
            c2, t2 = dyn_parts(c)
            return c2, list(t2) + list(terms)
        return c, list(terms)
    return None, None


def analyse_writer(h):
    T, M = h.meta["T"], h.meta["M"]
    s = ir.Sym(h.func, epochs=True, cut_loops=True)
    f = {"sym": s, "loops": s.loops, "problems": []}
    ws = [c for c in s.calls if c.name == io.WRITE]
    pre = [c for c in ws if not s.in_loop(c.block) and all(c.n < l.n for l in ws if s.in_loop(l.block))]
    loop = [c for c in ws if s.in_loop(c.block)]
    post = [c for c in ws if not s.in_loop(c.block) and c not in pre]
    f["pre"] = [(c.args[2][1] if c.args[2][0] == 'ci' else None, io.content_of(c, 1, c.args[2][1], h.module, s.atom_bits) if c.args[2][0] == 'ci' else None, c) for c in pre]
    f["post"] = [(c.args[2][1], io.content_of(c, 1, c.args[2][1], h.module, s.atom_bits), c) for c in post]
    items = []
    for c in loop:
        p = c.args[1]
        const, terms = dyn_parts(p[2]) if p[0] == 'ptr' else (None, None)
        items.append({"bytes": c.args[2][1] if c.args[2][0] == 'ci' else None, "base": p[1] if p[0] == 'ptr' else None, "const": const, "terms": terms, "call": c})
    f["loop_items"] = items
    f["iv"] = {k: (v["init"], s.iv_step(k)) for k, v in s.iv.items()}
    f["latch"] = [ir.common_lits(c) for c in getattr(s, "latch_cond", {}).values()]
    f["other_calls"] = [c for c in s.calls if c.name != io.WRITE and not (c.name or "").startswith(("__cxa", "_ZNSt11logic_error", "_ZNSt"))]
    return f


def analyse_reader(h):
    T, M = h.meta["T"], h.meta["M"]
    s = ir.Sym(h.func, epochs=True, cut_loops=True)
    f = {"sym": s, "loops": s.loops}
    rs = [c for c in s.calls if c.name == io.READ]
    loop = [c for c in rs if s.in_loop(c.block)]
    first_loop = min([c.n for c in loop]) if loop else 10 ** 9
    f["pre"] = [c for c in rs if not s.in_loop(c.block) and c.n < first_loop]
    f["loop"] = loop
    f["post"] = [c for c in rs if not s.in_loop(c.block) and c.n > first_loop]
    f["news"] = [c for c in s.calls if c.name in ("_Znam",) and ir.atoms(c.args[0] if c.args else ('ci', 0, 64)) & {a for a in ir.atoms(c.args[0]) if a[0] == 'wr'}] if True else []
    f["stores"] = [st for st in s.stores if st.block is not None and s.in_loop(st.block) and st.base[0] == 'ret']
    f["outs"] = {st.off: st for st in s.stores if st.base == ('arg', 1) and isinstance(st.off, int)}
    f["latch"] = [ir.common_lits(c) for c in getattr(s, "latch_cond", {}).values()]
    f["iv"] = {k: (v["init"], s.iv_step(k)) for k, v in s.iv.items()}
    f["throws"] = [ir.common_lits(c.cond) for c in s.calls if c.name == io.THROW]
    f["asserts"] = [c for c in s.calls if c.name == "__assert_fail"]
    return f


def leaves(t):
    if isinstance(t, tuple) and t[0] == 'sel':
        return leaves(t[2]) + leaves(t[3])
    return [t]


def const_content(item, value, nbytes):
    n, c, _ = item
    return n == nbytes and c and len(c) == 1 and ir.ungate(c[0][2]) == ('ci', value, nbytes * 8)


def width_lits(lits, width_call):
    """does the literal set require width in {4, 8}?  returns (has_validation, eq4 literal)"""
    def is_eq(l, v):
        return l[0] == 'cmp' and l[1] == 'eq' and ((l[2][0] == 'wr' and l[2][1] == width_call and l[3] == ('ci', v, 32)) or (l[3][0] == 'wr' and l[3][1] == width_call and l[2] == ('ci', v, 32)))
    for l in lits:
        if l[0] == 'or' and ((is_eq(l[1], 4) and is_eq(l[2], 8)) or (is_eq(l[1], 8) and is_eq(l[2], 4))):
            return True
        if l[0] == 'not' and l[1][0] == 'and':
            a, b = l[1][1], l[1][2]
            if a[0] == 'not' and b[0] == 'not' and ((is_eq(a[1], 4) and is_eq(b[1], 8)) or (is_eq(a[1], 8) and is_eq(b[1], 4))):
                return True
    # switch-like form: (w==4) or (w==8) may also appear as two alternative literals
    return any(is_eq(l, 4) for l in lits) or any(is_eq(l, 8) for l in lits)


def loop_shape(f, bound_ok):
    """one loop, induction from 0 by +1, continue iff iv+1 <(!=) bound"""
    if len(f["loops"]) != 1 or len(f["iv"]) < 1:
        return "expected exactly one element loop, found %d" % len(f["loops"])
    ivs = [k for k, (init, step) in f["iv"].items() if init == ('ci', 0, 64) and step and step[0] == ('op', 'add', 'i64', ('iv', k, init), ('ci', 1, 64))]
    if not ivs:
        return "no induction variable counting 0,1,2,... found in the element loop"
    k = ivs[0]
    nxt = ('op', 'add', 'i64', ('iv', k, ('ci', 0, 64)), ('ci', 1, 64))
    for lits in f["latch"]:
        for l in lits:
            c = l[1] if l[0] == 'not' else l
            if c[0] == 'cmp' and nxt in (c[2], c[3]):
                other = c[3] if c[2] == nxt else c[2]
                cont = (l[0] != 'not' and c[1] in ('ult', 'ne')) or (l[0] == 'not' and c[1] in ('eq', 'uge'))
                if cont and bound_ok(other):
                    return None
                return "loop continues on %s, expected 'next index below the element count'" % ir.show(l)[:100]
    return "no loop-continuation test on the element index found"


# --------------------------------------------------------------------------
# rules
# --------------------------------------------------------------------------
def declare_c06(rep):
    rep.rule("C06.A-write", "array writer: header, width word == sizeof(scalar), count word == m_size, one loop over elements writing M scalars each from element (i, j), footer", floor=4)
    rep.rule("C06.A-read", "array reader: same item sequence; loop bound is the count word read; element (i, j) of the new buffer receives the j-th scalar read in iteration i", floor=4)
    rep.rule("C06.A-pair", "for the writer's own width the reader reads sizeof(scalar) bytes and stores them unconverted at the address expression the writer reads from", floor=4)


def check_writer(rep, rid, hw, fw):
    T, M = hw.meta["T"], hw.meta["M"]
    inst = "array<%s,%d> writer" % (T, M)
    sz = SZ[T]
    obj = ('arg', 0)
    why = None
    if len(fw["pre"]) != 4 or not const_content(fw["pre"][0], io.MAGIC_HEADER, 4) or not const_content(fw["pre"][1], TAG, 4):
        why = "payload is not preceded by the global magic word and the array tag"
    elif not const_content(fw["pre"][2], sz, 4):
        why = "float-width word written is not sizeof(%s) = %d" % (T, sz)
    elif fw["pre"][3][0] != 8 or fw["pre"][3][2].args[1] != ('ptr', obj, 0):
        why = "element-count word is not the 8-byte m_size member"
    elif len(fw["post"]) != 2 or not const_content(fw["post"][0], io.MAGIC_FOOTER, 4) or not const_content(fw["post"][1], (TAG + io.FOOTER_DELTA) & 0xFFFFFFFF, 4):
        why = "payload is not followed by the magic footer and the array footer tag"
    else:
        size_atom = ('ld', obj, 0, 8, 'i64', None)
        why = loop_shape(fw, lambda t: t[0] == 'ld' and t[1] == obj and t[2] == 0 and t[3] == 8)
        if why is None:
            items = fw["loop_items"]
            if len(items) != M:
                why = "each iteration writes %d scalars, expected %d" % (len(items), M)
            else:
                for j, it in enumerate(items):
                    base_ok = it["base"] is not None and it["base"][0] == 'mem' and it["base"][1][0] == 'ld' and it["base"][1][1] == obj and it["base"][1][2] == 8
                    terms = it["terms"] or []
                    if it["bytes"] != sz or not base_ok or it["const"] != j * sz or len(terms) != 1 or terms[0][0] != M * sz or terms[0][1][0] != 'iv':
                        why = "scalar %d of an iteration is written from %s+%s (%s bytes); expected m_ptr + i*%d + %d (%d bytes)" % (
                            j, ir.show(it["base"])[:40] if it["base"] else "?", ir.show(it["call"].args[1][2])[:60], it["bytes"], M * sz, j * sz, sz)
                        break
    if why:
        rep.fail(rid, inst, FILE, why)
        return False
    rep.ok(rid, inst, sample={"array writer": "%s x %d" % (T, M), "grammar": ["HDR", "RAW(4)=%d" % sz, "RAW(8)=m_size", "LOOP(m_size){%d x RAW(%d)}" % (M, sz), "FTR"]} if M == 3 else None)
    return True


def reader_branches(hr, fr):
    """per on-disk width (4, 8): [(bytes read, store offset const, store stride terms, conversion)] for one iteration"""
    T, M = hr.meta["T"], hr.meta["M"]
    pre = fr["pre"]
    if len(pre) != 4:
        return None, "reader does not start with header (2 words), width word and count word"
    wcall = pre[2].n
    eq4 = ('cmp', 'eq', ('wr', wcall, 1, 0, 4, 'i32'), ('ci', 4, 32))
    out = {}
    for width, truth in ((4, True), (8, False)):
        reads = []
        for c in fr["loop"]:
            cw = ir.restrict(c.cond, eq4, truth)
            if cw != ir.FALSE:
                reads.append(c)
        entries = []
        for st in sorted(fr["stores"], key=lambda s_: (dyn_parts(s_.off)[0] or 0)):
            cw = ir.restrict(st.cond, eq4, truth)
            if cw == ir.FALSE:
                continue
            v = ir.ungate(ir.restrict(ir.ungate(st.val), eq4, truth))
            if v[0] == 'sel':
                # value merged from both width branches: keep the leaf fed by this branch's reads
                mine = {c.n for c in reads}
                cands = [l for l in leaves(v) if io.wr_atoms(l) and all(a[1] in mine for a in io.wr_atoms(l))]
                if len(cands) == 1:
                    v = cands[0]
            const, terms = dyn_parts(st.off)
            conv = "none"
            inner = v
            if v[0] == 'cast' and v[1] in ('fpext', 'fptrunc'):
                conv = v[1]
                inner = v[3]
            inner = io.norm_rd(inner)
            entries.append({"const": const, "terms": terms, "conv": conv, "src": inner, "size": st.size, "store": st, "lits": ir.common_lits(cw)})
        latch = [ir.common_lits(ir.restrict(c, eq4, truth)) for c in getattr(fr["sym"], "latch_cond", {}).values()]
        out[width] = {"reads": reads, "stores": entries, "latch": latch}
    return out, None


def check_reader(rep, rid, hr, fr):
    T, M = hr.meta["T"], hr.meta["M"]
    inst = "array<%s,%d> reader" % (T, M)
    sz = SZ[T]
    pre = fr["pre"]
    why = None
    br, why = reader_branches(hr, fr)
    if why is None:
        if [c.args[2][1] for c in pre] != [4, 4, 4, 8]:
            why = "prefix reads %s bytes, expected header words (4,4), width word (4), count word (8)" % [c.args[2][1] for c in pre]
        elif [c.args[2][1] for c in fr["post"]] != [4, 4]:
            why = "payload is not followed by the two footer words"
    if why is None:
        cnt = pre[3].n
        why = loop_shape(fr, lambda t: io.norm_rd(t)[:5] == ('wr', cnt, 1, 0, 8))
    if why is None:
        for width in (4, 8):
            b = br[width]
            if [c.args[2][1] for c in b["reads"]] != [width] * M:
                why = "for on-disk width %d an iteration reads %s bytes, expected %d reads of %d" % (width, [c.args[2][1] for c in b["reads"]], M, width)
                break
            if len(b["stores"]) != M:
                why = "an iteration stores %d scalars, expected %d" % (len(b["stores"]), M)
                break
            for j, e in enumerate(b["stores"]):
                terms = e["terms"] or []
                want_conv = "none" if width == sz else ("fpext" if width < sz else "fptrunc")
                src_ok = e["src"][0] == 'wr' and e["src"][1] == b["reads"][j].n and e["src"][3] == 0 and e["src"][4] == width
                loopreads = {c.n for c in fr["loop"]}
                peeks = [l for l in e["lits"] if io.state_ok_epoch(l, 0) is None and any(a[1] in loopreads for a in io.wr_atoms(l))]
                if peeks:
                    why = "width %d: whether element component %d is stored depends on the value just read (%s): some stored bit patterns would be refused or treated differently" % (width, j, ir.show(peeks[0])[:80])
                    break
                if e["const"] != j * sz or len(terms) != 1 or terms[0][0] != M * sz or terms[0][1][0] != 'iv' or e["size"] != sz:
                    why = "width %d: scalar %d is stored at %s, expected buffer + i*%d + %d" % (width, j, ir.show(e["store"].off)[:60], M * sz, j * sz)
                elif not src_ok:
                    why = "width %d: element component %d receives %s, expected the %d-th scalar read in this iteration" % (width, j, ir.show(e["src"])[:80], j)
                elif e["conv"] != want_conv:
                    why = "width %d -> in-memory %s: conversion is %s, expected %s" % (width, T, e["conv"], want_conv)
                if why:
                    break
            if why:
                break
    if why is None:
        o = fr["outs"]
        cnt = pre[3].n
        if 0 not in o or io.norm_rd(o[0].val)[:5] != ('wr', cnt, 1, 0, 8):
            why = "m_size of the loaded object is not the count word read"
        elif 8 not in o or not (o[8].val[0] == 'cast' and o[8].val[3][0] == 'ptr' and o[8].val[3][1][0] == 'ret' or (o[8].val[0] == 'ptr' and o[8].val[1][0] == 'ret')):
            why = "m_ptr of the loaded object is not the buffer that was filled"
    if why:
        rep.fail(rid, inst, FILE, why)
        return None
    rep.ok(rid, inst)
    return br


def run_c06(rep, tier):
    for hw, hr, fw, fr in facts(tier):
        T, M = hw.meta["T"], hw.meta["M"]
        if hw.error or hr.error:
            h = hw if hw.error else hr
            loc, msg = harness.first_error(h)
            rep.fail("C06.A-write" if hw.error else "C06.A-read", "array<%s,%d>" % (T, M), loc, "does not compile: " + msg)
            continue
        okw = check_writer(rep, "C06.A-write", hw, fw)
        br = check_reader(rep, "C06.A-read", hr, fr)
        if okw and br:
            # same width: bit-identical, same address expression (const j*sz, stride M*sz) - established by both rules with identical formulas
            e = br[SZ[T]]["stores"]
            if all(x["conv"] == "none" for x in e):
                rep.ok("C06.A-pair", "array<%s,%d>" % (T, M))
            else:
                rep.fail("C06.A-pair", "array<%s,%d>" % (T, M), FILE, "values of the in-memory width are converted on load: not bit-identical")
    return []


def declare_c07(rep):
    rep.rule("C07.b", "array reader accepts on-disk widths 4 and 8 for float and double storage; widening is fpext (exact), narrowing fptrunc, equal width unconverted; counts and addresses width-independent", floor=4)
    rep.rule("C07.c-array", "array payload grammar equals the frozen format (width word, 8-byte count, M scalars per element in order)", floor=4)


def extract_format():
    out = {}
    for hw, hr, fw, fr in facts("thorough"):
        if fw:
            T, M = hw.meta["T"], hw.meta["M"]
            out["array<%s,%d>" % (T, M)] = {"prefix_bytes": [p[0] for p in fw["pre"]], "width_word": fw["pre"][2][1][0][2][1] if fw["pre"][2][1] else None,
                                           "per_element": [it["bytes"] for it in fw["loop_items"]], "suffix_bytes": [p[0] for p in fw["post"]]}
    return out


def run_c07(rep, tier):
    import json
    import os
    from .. import common
    frozen = json.load(open(os.path.join(common.VERIF, "spec", "format_v1.json"))).get("array") or {}
    for hw, hr, fw, fr in facts(tier):
        T, M = hw.meta["T"], hw.meta["M"]
        inst = "array<%s,%d>" % (T, M)
        if hw.error or hr.error:
            continue
        class Quiet:
            def fail(self, *a, **k):
                self.failed = a
            def ok(self, *a, **k):
                pass
        q = Quiet()
        br = check_reader(q, "x", hr, fr)
        if br is None:
            rep.fail("C07.b", inst, FILE, "reader: " + str(getattr(q, "failed", ["", "", "", "?"])[3]))
        else:
            rep.ok("C07.b", inst, sample={"array reader": inst, "width4": [e["conv"] for e in br[4]["stores"]], "width8": [e["conv"] for e in br[8]["stores"]]} if M == 3 else None)
        cur = {"prefix_bytes": [p[0] for p in fw["pre"]], "width_word": fw["pre"][2][1][0][2][1] if len(fw["pre"]) > 2 and fw["pre"][2][1] else None,
               "per_element": [it["bytes"] for it in fw["loop_items"]], "suffix_bytes": [p[0] for p in fw["post"]]}
        if inst not in frozen:
            raise AnalysisBroken("array instantiation %s missing from the frozen format table" % inst)
        if cur != frozen[inst]:
            rep.fail("C07.c-array", inst, FILE, "array payload grammar changed: now %s, frozen %s" % (cur, frozen[inst]))
        else:
            rep.ok("C07.c-array", inst)
    return []


def declare_c08(rep):
    rep.rule("C08.f", "array reader: the width word is validated (4 or 8, else throw) before the count is read or anything is allocated", floor=4)
    rep.rule("C08.g", "array reader: every loop iteration performs reads whose stream-state test guards the stores and the loop's continuation; allocation size derives from a checked read", floor=4)
    rep.rule("C08.c-array", "array reader: no assertion reachable (assertion-enabled build)", floor=4)


def run_c08(rep, tier):
    for build, nd in (("NDEBUG", True), ("debug", False)):
        for hw, hr, fw, fr in facts(tier, nd):
            T, M = hr.meta["T"], hr.meta["M"]
            inst = "array<%s,%d>/%s" % (T, M, build)
            if hr.error:
                loc, msg = harness.first_error(hr)
                rep.fail("C08.f", inst, loc, "reader does not compile: " + msg)
                continue
            from .c08 import terminating_unwinds
            tu = terminating_unwinds(hr.func)
            if tu:
                rep.fail("C08.c-array", inst, ir.where(tu[0]), "an exception raised while reading unwinds into std::terminate (noexcept frame)")
            if fr["asserts"]:
                rep.fail("C08.c-array", inst, ir.where(fr["asserts"][0].inst), "an assertion can fail while reading")
            else:
                rep.ok("C08.c-array", inst)
            pre = fr["pre"]
            if len(pre) != 4:
                rep.fail("C08.f", inst, FILE, "unexpected prefix of %d reads" % len(pre))
                continue
            wcall, ccall = pre[2].n, pre[3].n
            lits_count = ir.common_lits(pre[3].cond)
            okw = [l for l in lits_count if io.state_ok_epoch(l, 0) == wcall + 1]
            eq4 = ('cmp', 'eq', ('wr', wcall, 1, 0, 4, 'i32'), ('ci', 4, 32))
            eq8 = ('cmp', 'eq', ('wr', wcall, 1, 0, 4, 'i32'), ('ci', 8, 32))
            # the count is read only if width is 4 or 8: assuming both equalities false must make the path condition false
            validated = ir.restrict(ir.restrict(pre[3].cond, eq4, False), eq8, False) == ir.FALSE
            if not okw or not validated:
                rep.fail("C08.f", inst, ir.where(pre[2].inst), "the count word is read before the width word has been checked to be 4 or 8 (on a checked read)")
            else:
                rep.ok("C08.f", inst)
            why = None
            if not fr["loop"]:
                why = "no read inside the element loop"
            br, err = reader_branches(hr, fr)
            if err:
                why = err
            for width in ((4, 8) if why is None else ()):
                b = br[width]
                if not b["reads"]:
                    why = "for on-disk width %d the loop reads nothing: it can go round without a checked read" % width
                for c in b["reads"]:
                    k = c.n
                    guards = [e for e in b["stores"] if any(io.state_ok_epoch(l, 0) == k + 1 for l in e["lits"])]
                    users = [e for e in b["stores"] if any(a[1] == k for a in io.wr_atoms(e["src"]))]
                    lit = next((l for e in b["stores"] + [{"lits": x} for x in b["latch"]] for l in e["lits"] if io.state_ok_epoch(l, 0) == k + 1), None)
                    if lit is None:
                        why = "width %d: read #%d in the loop is not followed by a stream-state test" % (width, k)
                        break
                    if any(e not in guards for e in users):
                        why = "width %d: a value from read #%d is stored although its state test may have failed" % (width, k)
                    if not any(lit in x for x in b["latch"]):
                        why = "width %d: the loop continues although the state test after read #%d may have failed" % (width, k)
                    tc = [c.cond for c in fr["sym"].calls if c.name == io.THROW]
                    if not any(ir.occurs_positive(c, ir.mk_not(lit)) for c in tc) or fr["asserts"]:
                        why = "width %d: no throw is taken exactly when the state test after read #%d fails" % (width, k)
            # allocation size from checked count
            for nw in fr["news"]:
                if not any(io.state_ok_epoch(l, 0) == ccall + 1 for l in ir.common_lits(nw.cond)):
                    why = "the buffer is allocated from the count word before that read has been checked"
            if why:
                rep.fail("C08.g", inst, FILE, why)
            else:
                rep.ok("C08.g", inst)
    return []
