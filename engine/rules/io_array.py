"""array backend payload: float width, element count, then scalars in storage order (loops).

The writer and reader of covfie::backend::array each contain one loop over the elements (the inner loop over the
M components is fully unrolled).  Sym(cut_loops=True) reads the function with the back edge cut and the induction
variable as an opaque atom, which gives: prefix items, the items of ONE generic iteration with their addresses as
functions of the induction variable, the loop's entry/continue conditions, suffix items.
"""
from .. import harness, ir
from ..common import AnalysisBroken
from ..harness import Harness
from . import io

FILE = "lib/core/covfie/core/backend/primitive/array.hpp"
TAG = 0xAB010000
SZ = {"float": 4, "double": 8}


def h_w(T, M):
    body = "  using B = array<verif::vd<%s, %d>>;\n  B::owning_data_t::write_binary(*a1, *static_cast<const B::owning_data_t *>(a0));\n" % (T, M)
    return Harness("ioaw_%s%d" % (T, M), [("const void *", 'obj'), ("std::ostream *", 'os')], body, meta={"T": T, "M": M})


def h_r(T, M):
    body = "  using B = array<verif::vd<%s, %d>>;\n  new (a1) B::owning_data_t(B::owning_data_t::read_binary(*a0));\n" % (T, M)
    return Harness("ioar_%s%d" % (T, M), [("std::istream *", 'is'), ("void *", 'result')], body, meta={"T": T, "M": M})


def combos(tier):
    return [(T, M) for T in ("float", "double") for M in ((1, 3) if tier == "quick" else (1, 2, 3, 4))]


_cache = {}


def facts(tier, ndebug=True):
    key = (tier, ndebug)
    if key in _cache:
        return _cache[key]
    hws = [h_w(T, M) for T, M in combos(tier)]
    hrs = [h_r(T, M) for T, M in combos(tier)]
    harness.build(hws + hrs, "ioarr%d" % ndebug, per_tu=4, ndebug=ndebug, callees=True)
    out = []
    for hw, hr in zip(hws, hrs):
        out.append((hw, hr, analyse_writer(hw) if not hw.error else None, analyse_reader(hr) if not hr.error else None))
    _cache[key] = out
    return out


def dyn_parts(off):
    """byte offset of a pointer -> (const, [(scale, term)]): int, ('dyn', a, b) from address arithmetic (nested sums,
    b either another offset or a tuple of (scale, index term) pairs); (None, None) if it has another form"""
    if isinstance(off, int):
        return off, []
    if isinstance(off, tuple) and off and off[0] == 'dyn' and len(off) == 3:
        c1, t1 = dyn_parts(off[1])
        b = off[2]
        if isinstance(b, int):
            c2, t2 = b, []
        elif isinstance(b, tuple) and b and b[0] == 'dyn':
            c2, t2 = dyn_parts(b)
        elif isinstance(b, tuple) and all(isinstance(x, tuple) and len(x) == 2 and isinstance(x[0], int) for x in b):
            c2, t2 = 0, list(b)
        else:
            return None, None
        if c1 is None or c2 is None:
            return None, None
        return c1 + c2, list(t1) + list(t2)
    return None, None


def off_poly(off):
    """byte offset as a polynomial mod 2^64 over index terms, or None"""
    c, terms = dyn_parts(off)
    if c is None:
        return None
    p = ir.Poly.const(c, 1 << 64)
    for sc, t in terms:
        p = p + ir.Poly.const(sc, 1 << 64) * ir.to_poly(t, 'int', width=64)
    return p


def counter_iv(f, header=None):
    """a loop-carried value counting 0, 1, 2, ... (of the loop with the given header, if one is named)"""
    ivs = [k for k, (init, step) in f["iv"].items() if init == ('ci', 0, 64) and step and len(step) == 1 and step[0] == ('op', 'add', 'i64', ('iv', k, init), ('ci', 1, 64))
           and (header is None or f["sym"].iv[k]["header"] == header)]
    return ivs[0] if ivs else None


def writer_shape(fw, frame=True):
    """'per-element': one loop with a 0,1,2,.. counter whose writes have constant sizes and analysable addresses, nothing
    else written between count word and footer; 'bulk': no loop, one write between count word and footer; else None"""
    framed = (fw["head_bytes"] == 20 and fw["tail_bytes"] == 8) if frame else (fw["head"] is not None and fw["tail"] is not None)
    if len(fw["loops"]) == 1 and counter_iv(fw) is not None and fw["loop_items"] and framed \
            and all(it["bytes"] is not None and it["terms"] is not None for it in fw["loop_items"]):
        return "per-element"
    if not fw["loops"] and len(fw["bulk"]) == 1 and framed:
        return "bulk"
    return None


def reader_shape(fr):
    """'per-element': header words, width word, count word, then for each on-disk width either ONE loop with a 0,1,2,..
    counter whose reads have constant sizes and whose stores are directly addressed, or one bulk read of a run-time number of
    bytes (decided per width by reader_branches), then the footer words - and no other read; else None"""
    loop_ok = len(fr["loops"]) in (1, 2) and all(counter_iv(fr, h) is not None for h, _ in fr["loops"]) and fr["loop"] and all(c.args[2][0] == 'ci' for c in fr["loop"]) \
        and all(dyn_parts(st.off)[0] is not None for st in fr["stores"])      # one element loop, or one per on-disk width (the width test hoisted out of the loop)
    no_loop = not fr["loops"] and not fr["loop"]
    if (loop_ok or (no_loop and fr["bulk"])) and len(fr["bulk"]) <= 2 \
            and fr["prefix_ok"] and all(c.args[2][0] == 'ci' for c in fr["post"]) and sum(c.args[2][1] for c in fr["post"]) == 8 \
            and len(fr["pre"]) + len(fr["post"]) + len(fr["loop"]) + len(fr["bulk"]) == fr["nreads"]:
        return "per-element"
    return None


def opaque_poly(pl):
    return any(a[0] in ('sel', 'op', 'cmp', 'fn') for mon in pl.t for a in mon if isinstance(a, tuple))


def writer_stream(fw, hw):
    """Shape-independent necessary condition on a looping writer: consecutive writes abut.  Within one round the
    next write starts where the previous one ended; across the back edge (on rounds that are followed by another
    round) the first write of the next round starts where the last write of this round ended; the first round starts
    at the beginning of the buffer.  Returns (violation text | None, decided?)."""
    items = fw["loop_items"]
    if not items:
        return None, False
    s = fw["sym"]
    from .hilbert_curve import subst
    latch = list(getattr(s, "latch_cond", {}).values())
    if len(latch) != 1:
        return None, False
    cont = ir.common_lits(latch[0])
    polys = []
    for it in items:
        p = it["call"].args[1]
        if p[0] != 'ptr' or not (p[1][0] == 'mem' and p[1][1][0] == 'ld' and p[1][1][1] == ('arg', 0) and p[1][1][2] == 8):
            return None, False
        size = it["call"].args[2]
        for l in cont:                      # sizes of a round that is followed by another round
            size = ir.restrict(size, l[1] if l[0] == 'not' else l, l[0] != 'not')
        o, z = off_poly(p[2]), ir.to_poly(size, 'int', width=64)
        if o is None:
            return None, False
        alts = ir.poly_cases(size, 'int', width=64)
        if alts and len({a for _, a in alts}) > 1:
            # the length is chosen among several expressions (a last, shorter block): in rounds that are followed by
            # another one the length must be the distance to the next block, so one of the alternatives has to be
            # that distance identically
            if len(items) != 1:
                return None, False
            m_ = {('iv', k, init): step[0] for k, (init, step) in fw["iv"].items() if step and len(step) == 1 and step[0] is not None}
            nxt = off_poly(subst(p[2], m_))
            if nxt is None or opaque_poly(nxt - o):
                return None, False
            if not any(o + a == nxt for _, a in alts):
                return ("consecutive blocks start %s bytes apart but a block is %s bytes long: blocks overlap or leave a gap, the payload is not the buffer's bytes in order"
                        % ((nxt - o).show(), " or ".join(sorted({a.show() for _, a in alts})))), True
            z = nxt - o
        polys.append((o, z, p[2], size))
    opaque = opaque_poly
    for j in range(len(polys) - 1):
        if polys[j][0] + polys[j][1] != polys[j + 1][0]:
            if opaque(polys[j][0] + polys[j][1] - polys[j + 1][0]):
                return None, False
            return "write %d of a round ends at byte offset %s of the buffer but write %d starts at %s: the payload is not the buffer's bytes in order" % (
                j, (polys[j][0] + polys[j][1]).show(), j + 1, polys[j + 1][0].show()), True
    m = {('iv', k, init): step[0] for k, (init, step) in fw["iv"].items() if step and len(step) == 1 and step[0] is not None}
    m0 = {('iv', k, init): init for k, (init, step) in fw["iv"].items()}
    first_next = off_poly(subst(polys[0][2], m))
    first_0 = off_poly(subst(polys[0][2], m0))
    end = polys[-1][0] + polys[-1][1]
    if first_next is None or first_0 is None:
        return None, False
    if first_0.t:
        if opaque(first_0):
            return None, False
        return "the first write of the loop starts at byte offset %s of the buffer, not at its beginning" % first_0.show(), True
    if first_next != end:
        d = first_next - end
        if opaque(d):
            return None, False
        return ("a round that is followed by another one ends at byte offset %s of the buffer, the next round starts at %s (difference %s): blocks overlap or leave a gap, the payload is not the buffer's bytes in order"
                % (end.show(), first_next.show(), d.show())), True
    return None, True


def analyse_writer(h):
    T, M = h.meta["T"], h.meta["M"]
    s = ir.Sym(h.func, epochs=True, cut_loops=True)
    f = {"sym": s, "loops": s.loops, "problems": []}
    ws = [c for c in s.calls if c.name == io.WRITE]
    pre = [c for c in ws if not s.in_loop(c.block) and all(c.n < l.n for l in ws if s.in_loop(l.block))]
    loop = [c for c in ws if s.in_loop(c.block)]
    post = [c for c in ws if not s.in_loop(c.block) and c not in pre]
    f["pre"] = [(c.args[2][1] if c.args[2][0] == 'ci' else None, io.content_of(c, 1, c.args[2][1], h.module, s.atom_bits) if c.args[2][0] == 'ci' else None, c) for c in pre]
    f["post"] = [(c.args[2][1] if c.args[2][0] == 'ci' else None, io.content_of(c, 1, c.args[2][1], h.module, s.atom_bits) if c.args[2][0] == 'ci' else None, c) for c in post]
    items = []
    for c in loop:
        p = c.args[1]
        const, terms = dyn_parts(p[2]) if p[0] == 'ptr' else (None, None)
        items.append({"bytes": c.args[2][1] if c.args[2][0] == 'ci' else None, "base": p[1] if p[0] == 'ptr' else None, "const": const, "terms": terms, "call": c})
    f["loop_items"] = items
    # prefix / suffix by stream byte offset (how many write calls emit them does not matter)
    if loop:
        head, bulk, tail = f["pre"], [], f["post"]
    else:
        k = next((i for i, it in enumerate(f["pre"]) if it[0] is None), None)
        head, bulk, tail = (f["pre"], [], []) if k is None else (f["pre"][:k], [f["pre"][k]], f["pre"][k + 1:])
    f["bulk"] = bulk

    def flat(itemsl):
        out, off = {}, 0
        for n, content, c in itemsl:
            if n is None:
                return None, None
            for (co, csz, t) in (content or []):
                out[off + co] = (csz, ir.ungate(t))
            out[('src', off)] = (n, c.args[1])
            off += n
        return out, off
    f["head"], f["head_bytes"] = flat(head)
    f["tail"], f["tail_bytes"] = flat(tail)
    f["iv"] = {k: (v["init"], s.iv_step(k)) for k, v in s.iv.items()}
    f["latch"] = [ir.common_lits(c) for c in getattr(s, "latch_cond", {}).values()]
    f["other_calls"] = [c for c in s.calls if c.name != io.WRITE and not (c.name or "").startswith(("__cxa", "_ZNSt11logic_error", "_ZNSt"))]
    return f


def analyse_reader(h):
    T, M = h.meta["T"], h.meta["M"]
    s = io.normalise_throws(ir.Sym(h.func, epochs=True, cut_loops=True), h.module)
    f = {"sym": s, "loops": s.loops}
    rs = [c for c in s.calls if c.name == io.READ]
    loop = [c for c in rs if s.in_loop(c.block)]
    bulk = [c for c in rs if not s.in_loop(c.block) and c.args[2][0] != 'ci']          # one read of a run-time number of bytes
    payload = loop + bulk
    first_loop = min([c.n for c in payload]) if payload else 10 ** 9
    last_payload = max([c.n for c in payload]) if payload else -1
    f["nreads"] = len(rs)
    f["bulk"] = bulk
    f["pre"] = [c for c in rs if c not in payload and c.n < first_loop]
    # the prefix by stream offset: bytes 0..8 header words (read in any number of calls), 8..12 width word, 12..20 count word
    off, f["width_call"], f["count_call"], f["prefix_ok"] = 0, None, None, True
    for c in f["pre"]:
        if c.args[2][0] != 'ci':
            f["prefix_ok"] = False
            break
        if off == 8 and c.args[2][1] == 4:
            f["width_call"] = c
        if off == 12 and c.args[2][1] == 8:
            f["count_call"] = c
        off += c.args[2][1]
    f["prefix_ok"] = f["prefix_ok"] and off == 20 and f["width_call"] is not None and f["count_call"] is not None
    f["loop"] = loop
    f["post"] = [c for c in rs if c not in payload and c.n > last_payload]
    f["news"] = [c for c in s.calls if c.name in ("_Znam",) and ir.atoms(c.args[0] if c.args else ('ci', 0, 64)) & {a for a in ir.atoms(c.args[0]) if a[0] == 'wr'}] if True else []
    f["stores"] = [st for st in s.stores if st.block is not None and s.in_loop(st.block) and st.base[0] == 'ret']
    f["outs"] = {st.off: st for st in s.stores if st.base == ('arg', 1) and isinstance(st.off, int)}
    f["latch"] = [ir.common_lits(c) for c in getattr(s, "latch_cond", {}).values()]
    f["iv"] = {k: (v["init"], s.iv_step(k)) for k, v in s.iv.items()}
    f["throws"] = [ir.common_lits(c.cond) for c in s.calls if c.name == io.THROW]
    f["asserts"] = [c for c in s.calls if c.name == "__assert_fail" and not dead(c.cond)]     # on a path that is not contradictory in itself
    return f


def leaves(t):
    if isinstance(t, tuple) and t[0] == 'sel':
        return leaves(t[2]) + leaves(t[3])
    return [t]


def const_content(item, value, nbytes):
    n, c, _ = item
    return n == nbytes and c and len(c) == 1 and ir.ungate(c[0][2]) == ('ci', value, nbytes * 8)


def width_lits(lits, width_call):
    """does the literal set require width in {4, 8}?  returns (has_validation, eq4 literal)"""
    def is_eq(l, v):
        return l[0] == 'cmp' and l[1] == 'eq' and ((l[2][0] == 'wr' and l[2][1] == width_call and l[3] == ('ci', v, 32)) or (l[3][0] == 'wr' and l[3][1] == width_call and l[2] == ('ci', v, 32)))
    for l in lits:
        if l[0] == 'or' and ((is_eq(l[1], 4) and is_eq(l[2], 8)) or (is_eq(l[1], 8) and is_eq(l[2], 4))):
            return True
        if l[0] == 'not' and l[1][0] == 'and':
            a, b = l[1][1], l[1][2]
            if a[0] == 'not' and b[0] == 'not' and ((is_eq(a[1], 4) and is_eq(b[1], 8)) or (is_eq(a[1], 8) and is_eq(b[1], 4))):
                return True
    # switch-like form: (w==4) or (w==8) may also appear as two alternative literals
    return any(is_eq(l, 4) for l in lits) or any(is_eq(l, 8) for l in lits)


def loop_shape(f, bound_ok, header=None):
    """the (named) loop: induction from 0 by +1, continue iff iv+1 <(!=) bound"""
    k = counter_iv(f, header)
    if (header is None and len(f["loops"]) != 1) or k is None:
        raise AnalysisBroken("array payload: expected one element loop with a 0,1,2,.. counter (%d loops)" % len(f["loops"]))
    nxt = ('op', 'add', 'i64', ('iv', k, ('ci', 0, 64)), ('ci', 1, 64))
    latches = f["latch"] if header is None else [ir.common_lits(c) for (src, dst), c in getattr(f["sym"], "latch_cond", {}).items() if dst == header]
    for lits in latches:
        for l in lits:
            c = l[1] if l[0] == 'not' else l
            if c[0] == 'cmp' and nxt in (c[2], c[3]):
                other = c[3] if c[2] == nxt else c[2]
                cont = (l[0] != 'not' and c[1] in ('ult', 'ne')) or (l[0] == 'not' and c[1] in ('eq', 'uge'))
                if cont and bound_ok(other):
                    return None
                return "loop continues on %s, expected 'next index below the element count'" % ir.show(l)[:100]
    return "no loop-continuation test on the element index found"


# --------------------------------------------------------------------------
# rules
# --------------------------------------------------------------------------
def declare_c06(rep):
    rep.rule("C06.A-write", "array writer: header, width word == sizeof(scalar), count word == m_size, one loop over elements writing M scalars each from element (i, j), footer", floor=4)
    rep.rule("C06.A-read", "array reader: same item sequence; loop bound is the count word read; element (i, j) of the new buffer receives the j-th scalar read in iteration i", floor=4)
    rep.rule("C06.A-pair", "for the writer's own width the reader reads sizeof(scalar) bytes and stores them unconverted at the address expression the writer reads from", floor=4)


def check_writer(rep, rid, hw, fw):
    T, M = hw.meta["T"], hw.meta["M"]
    inst = "array<%s,%d> writer" % (T, M)
    sz = SZ[T]
    obj = ('arg', 0)
    why = None
    shape = writer_shape(fw)
    head, tail = fw["head"] or {}, fw["tail"] or {}
    word = lambda m, o: m[o][1][1] if o in m and m[o][0] == 4 and m[o][1][0] == 'ci' else None
    if fw["head_bytes"] != 20 or word(head, 0) != io.MAGIC_HEADER or word(head, 4) != TAG:
        if fw["head"] is None:
            rep.undecided("array<%s,%d> writer: the payload is not preceded by writes of constant sizes; not decided" % (T, M))
            return None
        if fw["head_bytes"] != 20:
            why = "the payload is preceded by %d bytes; the reader (and the format) has 20: two header words, the 4-byte width word and the 8-byte element count" % fw["head_bytes"]
        else:
            why = "payload is not preceded by the global magic word and the array tag"
    elif word(head, 8) != sz:
        why = "float-width word written is not sizeof(%s) = %d" % (T, sz)
    elif head.get(('src', 12)) != (8, ('ptr', obj, 0)) and not (head.get(12, (0, None))[0] == 8 and head[12][1][:4] == ('ld', obj, 0, 8)):
        why = "element-count word is not the 8-byte m_size member"
    elif shape is not None and (word(tail, 0) != io.MAGIC_FOOTER or word(tail, 4) != (TAG + io.FOOTER_DELTA) & 0xFFFFFFFF):
        why = "payload is not followed by the magic footer and the array footer tag"
    elif shape == "bulk":
        c = fw["bulk"][0][2]
        want = ir.Poly.const(M * sz, 1 << 64) * ir.Poly.atom(('ld', obj, 0, 8, 'i64', 0), 1 << 64)
        got = ir.to_poly(c.args[2], 'int', width=64, atomize=lambda t: ('ld', obj, 0, 8, 'i64', 0) if t[0] == 'ld' and t[1] == obj and t[2] == 0 and t[3] == 8 else None)
        p = c.args[1]
        at_start = (p[0] == 'ptr' and p[1][0] == 'mem' and p[1][1][0] == 'ld' and p[1][1][1] == obj and p[1][1][2] == 8 and p[2] == 0) or \
                   (p[0] == 'ld' and p[1] == obj and p[2] == 8 and p[3] == 8)
        if not at_start:
            why = "the single payload write does not start at the beginning of the buffer (m_ptr)"
        elif got != want:
            why = "the single payload write transfers %s bytes, expected m_size*%d" % (got.show(), M * sz)
    else:
        bad, decided = writer_stream(fw, hw)
        if bad:
            why = bad
        elif shape is None:
            rep.undecided("array<%s,%d> writer: the payload is not written by one loop over the elements with constant-size writes, nor by one bulk write; %s. Re-confirm %s by reading and teach engine/rules/io_array.py the new shape"
                          % (T, M, "consecutive writes were shown to abut, the end of the last round was not decided" if decided else "its writes could not be related to each other", FILE))
            return None
    if why is None and shape == "per-element":
        why = loop_shape(fw, lambda t: t[0] == 'ld' and t[1] == obj and t[2] == 0 and t[3] == 8)
        if why is None:
            # the writes of round i tile bytes [i*M*sz, (i+1)*M*sz) of the buffer in order (M scalar writes, one
            # whole-vector write, ...)
            items = fw["loop_items"]
            pos = 0
            for j, it in enumerate(items):
                base_ok = it["base"] is not None and it["base"][0] == 'mem' and it["base"][1][0] == 'ld' and it["base"][1][1] == obj and it["base"][1][2] == 8
                terms = it["terms"] or []
                if not base_ok or it["const"] != pos or len(terms) != 1 or terms[0][0] != M * sz or terms[0][1][0] != 'iv':
                    why = "write %d of an iteration takes %s bytes from %s+%s; expected m_ptr + i*%d + %d" % (
                        j, it["bytes"], ir.show(it["base"])[:40] if it["base"] else "?", ir.show(it["call"].args[1][2])[:60], M * sz, pos)
                    break
                pos += it["bytes"]
            if why is None and pos != M * sz:
                why = "each iteration writes %d bytes, an element has %d" % (pos, M * sz)
    if why:
        rep.fail(rid, inst, FILE, why)
        return False
    rep.ok(rid, inst, sample={"array writer": "%s x %d" % (T, M), "shape": shape, "grammar": ["HDR", "RAW(4)=%d" % sz, "RAW(8)=m_size", "LOOP(m_size){%d x RAW(%d)}" % (M, sz), "FTR"]} if M == 3 else None)
    return True


def dead(y):
    """is the condition contradictory once its own conjuncts are assumed (a branch on a value that was selected by an
    earlier conjunct of the same path: `kind = width == 4 ? single : double; ... if (kind == double)`)"""
    from .hilbert_curve import const_fold
    if y == ir.FALSE:
        return True
    for _ in range(3):
        z = y
        for l in ir.common_lits(y):
            z = const_fold(ir.restrict(z, l[1] if l[0] == 'not' else l, l[0] != 'not'))
        if z == ir.FALSE:
            return True
        if z == y:
            break
        y = z
    return False


def assume(x, lits):
    """simplify x under the assumption that every literal holds; the literals are kept in step with the rewriting, so a
    literal that mentions a sub-condition already assumed is still recognised"""
    from .hilbert_curve import const_fold, subst
    lits = [const_fold(l) for l in lits]
    x = const_fold(x)
    i = 0
    while i < len(lits):
        l = lits[i]
        i += 1
        if l in (ir.TRUE, ir.FALSE) or not isinstance(l, tuple):
            continue
        core, pol = (l[1], False) if l[0] == 'not' else (l, True)
        m_ = {core: ir.TRUE if pol else ir.FALSE}
        x = const_fold(subst(ir.restrict(x, core, pol), m_))          # also below arithmetic nodes, where restrict does not look
        lits[i:] = [const_fold(subst(ir.restrict(m, core, pol), m_)) for m in lits[i:]]
    return x


def prune(x):
    """drop the alternatives of a disjunction that are contradictory in themselves"""
    if isinstance(x, tuple) and x and x[0] == 'or':
        a, b = prune(x[1]), prune(x[2])
        if dead(a):
            return b
        if dead(b):
            return a
        return ir.mk_or(a, b)
    if isinstance(x, tuple) and x and x[0] == 'and':
        return ir.mk_and(prune(x[1]), prune(x[2]))
    return x


def reader_branches(hr, fr):
    """per on-disk width (4, 8): [(bytes read, store offset const, store stride terms, conversion)] for one iteration"""
    T, M = hr.meta["T"], hr.meta["M"]
    pre = fr["pre"]
    if not fr["prefix_ok"]:
        return None, "reader does not start with header (2 words), width word and count word"
    wcall = fr["width_call"].n
    eq4 = ('cmp', 'eq', ('wr', wcall, 1, 0, 4, 'i32'), ('ci', 4, 32))
    eq8 = ('cmp', 'eq', ('wr', wcall, 1, 0, 4, 'i32'), ('ci', 8, 32))

    watom = ('wr', wcall, 1, 0, 4, 'i32')

    def under(x, truth):
        # the width word is 4 or 8 (C08.f): evaluate everything that is computed from it (comparisons, an enum derived
        # from it, ...) with the word fixed to that value
        from .hilbert_curve import subst, const_fold
        return const_fold(subst(ir.restrict(ir.restrict(x, eq4, truth), eq8, not truth), {watom: ('ci', 4 if truth else 8, 32)}))
    out = {}
    for width, truth in ((4, True), (8, False)):
        reads = []
        for c in fr["loop"]:
            cw = under(c.cond, truth)
            if not dead(cw):
                reads.append(c)
        entries = []
        for st in sorted(fr["stores"], key=lambda s_: (dyn_parts(s_.off)[0] or 0)):
            cw = under(st.cond, truth)
            if dead(cw):
                continue
            v = ir.ungate(under(ir.ungate(st.val), truth))
            if v[0] == 'sel':
                # value merged from both width branches: keep the leaf fed by this branch's reads
                mine = {c.n for c in reads}
                cands = [l for l in leaves(v) if io.wr_atoms(l) and all(a[1] in mine for a in io.wr_atoms(l))]
                if len(cands) == 1:
                    v = cands[0]
            const, terms = dyn_parts(st.off)
            conv = "none"
            inner = v
            if v[0] == 'cast' and v[1] in ('fpext', 'fptrunc'):
                conv = v[1]
                inner = v[3]
            inner = io.norm_rd(inner)
            if inner[0] == 'blk':
                # a block copy out of the local buffer a read of this round filled (read_binary<vector_t> returns by value)
                src_reads = [c for c in reads if c.args[1] == inner[1] and c.args[2] == ('ci', st.size, 64)]
                if len(src_reads) == 1:
                    inner = ('wr', src_reads[0].n, 1, 0, st.size, 'blk')
            entries.append({"const": const, "terms": terms, "conv": conv, "src": inner, "size": st.size, "store": st, "lits": ir.common_lits(cw)})
        hdrs = {tuple(fr["sym"].in_loop(c.block))[-1:] for c in reads}
        if len(hdrs) > 1:
            return None, "for on-disk width %d the payload is read in more than one loop" % width
        hdr = next(iter(hdrs))[0] if hdrs and next(iter(hdrs)) else None
        if hdr is not None:
            entries = [e for e in entries if hdr in fr["sym"].in_loop(e["store"].block)]
        latch = [ir.common_lits(under(c, truth)) for (src, dst), c in getattr(fr["sym"], "latch_cond", {}).items() if hdr is None or dst == hdr]
        bulk = [c for c in fr["bulk"] if not dead(under(c.cond, truth))]
        out[width] = {"reads": reads, "stores": entries, "latch": latch, "bulk": bulk, "hdr": hdr}
    return out, None


def check_reader(rep, rid, hr, fr):
    T, M = hr.meta["T"], hr.meta["M"]
    inst = "array<%s,%d> reader" % (T, M)
    sz = SZ[T]
    pre = fr["pre"]
    why = None
    if reader_shape(fr) is None:
        fr["undecided"] = ("array<%s,%d> reader: the payload is not read by one loop over the elements with constant-size reads and directly addressed stores (%d loops); re-confirm %s by reading and teach "
                           "engine/rules/io_array.py the new shape" % (T, M, len(fr["loops"]), FILE))
        if hasattr(rep, "undecided"):
            rep.undecided(fr["undecided"])
        return None
    br, why = reader_branches(hr, fr)
    if why is None:
        if sum(c.args[2][1] for c in fr["post"]) != 8:
            why = "payload is not followed by the two footer words"
    if why is None and fr["loops"]:
        cnt = fr["count_call"].n
        for width in (4, 8):
            if why is None and br[width]["hdr"] is not None:
                why = loop_shape(fr, lambda t: io.norm_rd(t)[:5] == ('wr', cnt, 1, 0, 8), br[width]["hdr"])
    if why is None:
        for width in (4, 8):
            b = br[width]
            if b["bulk"]:
                # the whole payload in one stream read: only sound when nothing has to be converted, it must fill exactly the
                # buffer (count * M * sizeof(scalar) bytes from its beginning), and no element loop runs for this width
                cnt_atom = ('wr', fr["count_call"].n, 1, 0, 8, 'i64')
                rd = b["bulk"][0]
                want = ir.Poly.const(M * sz, 1 << 64) * ir.Poly.atom(cnt_atom, 1 << 64)
                got = ir.to_poly(rd.args[2], 'int', width=64, atomize=lambda t: cnt_atom if io.norm_rd(t)[:5] == cnt_atom[:5] else None)
                dst = rd.args[1]
                if len(b["bulk"]) != 1 or b["reads"]:
                    why = "width %d: the payload is read both in bulk and element by element" % width
                elif width != sz:
                    why = "width %d: the payload is read in bulk into a buffer of %d-byte scalars: no conversion takes place" % (width, sz)
                elif not (dst[0] == 'ptr' and dst[1][0] == 'ret' and dst[2] == 0 and any(n_.n == dst[1][1] for n_ in fr["news"])):
                    why = "width %d: the bulk read does not target the beginning of the freshly allocated buffer (%s)" % (width, ir.show(dst)[:60])
                elif got != want:
                    why = "width %d: the bulk read transfers %s bytes, the buffer holds count*%d" % (width, got.show()[:80], M * sz)
                if why:
                    break
                b["stores"] = [{"conv": "none"}] * M
                continue
            sizes = [c.args[2][1] for c in b["reads"]]
            if sum(sizes) != width * M:
                why = "for on-disk width %d an iteration reads %s bytes, expected %d bytes (%d scalars of %d)" % (width, sizes, width * M, M, width)
                break
            start = {}
            acc = 0
            for c in b["reads"]:
                start[c.n] = acc
                acc += c.args[2][1]
            pos = 0
            for j, e in enumerate(b["stores"]):
                terms = e["terms"] or []
                want_conv = "none" if width == sz else ("fpext" if width < sz else "fptrunc")
                k = pos // sz           # first scalar this store covers
                whole = want_conv == "none" and e["size"] % sz == 0          # unconverted bytes may be moved several scalars at a time
                # scalar k of the element is bytes [k*width, (k+1)*width) of what this iteration read, in reading order
                src_ok = e["src"][0] == 'wr' and e["src"][1] in start and start[e["src"][1]] + e["src"][3] == k * width and \
                    (e["src"][4] == width and e["size"] == sz or whole and e["src"][4] == e["size"])
                loopreads = {c.n for c in fr["loop"]}
                peeks = [l for l in e["lits"] if io.state_ok_epoch(l, 0) is None and any(a[1] in loopreads for a in io.wr_atoms(l))]
                if peeks:
                    why = "width %d: whether element component %d is stored depends on the value just read (%s): some stored bit patterns would be refused or treated differently" % (width, k, ir.show(peeks[0])[:80])
                    break
                if e["const"] != pos or len(terms) != 1 or terms[0][0] != M * sz or terms[0][1][0] != 'iv' or not (e["size"] == sz or whole):
                    why = "width %d: store %d of an iteration goes to %s (%d bytes), expected buffer + i*%d + %d" % (width, j, ir.show(e["store"].off)[:60], e["size"], M * sz, pos)
                elif not src_ok:
                    why = "width %d: element component %d receives %s, expected bytes %d.. of what this iteration read" % (width, k, ir.show(e["src"])[:80], k * width)
                elif e["conv"] != want_conv:
                    why = "width %d -> in-memory %s: conversion is %s, expected %s" % (width, T, e["conv"], want_conv)
                if why:
                    break
                pos += e["size"]
            if why is None and pos != M * sz:
                why = "width %d: an iteration stores %d bytes, an element has %d" % (width, pos, M * sz)
            if why:
                break
    if why is None:
        o = fr["outs"]
        cnt = fr["count_call"].n
        if 0 not in o or io.norm_rd(o[0].val)[:5] != ('wr', cnt, 1, 0, 8):
            why = "m_size of the loaded object is not the count word read"
        elif 8 not in o or not (o[8].val[0] == 'cast' and o[8].val[3][0] == 'ptr' and o[8].val[3][1][0] == 'ret' or (o[8].val[0] == 'ptr' and o[8].val[1][0] == 'ret')):
            why = "m_ptr of the loaded object is not the buffer that was filled"
    if why:
        rep.fail(rid, inst, FILE, why)
        return None
    rep.ok(rid, inst)
    return br


def run_c06(rep, tier):
    for hw, hr, fw, fr in facts(tier):
        T, M = hw.meta["T"], hw.meta["M"]
        if hw.error or hr.error:
            h = hw if hw.error else hr
            loc, msg = harness.first_error(h)
            rep.fail("C06.A-write" if hw.error else "C06.A-read", "array<%s,%d>" % (T, M), loc, "does not compile: " + msg)
            continue
        okw = check_writer(rep, "C06.A-write", hw, fw)
        br = check_reader(rep, "C06.A-read", hr, fr)
        if okw and br:
            # same width: bit-identical, same address expression (const j*sz, stride M*sz) - established by both rules with identical formulas
            e = br[SZ[T]]["stores"]
            if all(x["conv"] == "none" for x in e):
                rep.ok("C06.A-pair", "array<%s,%d>" % (T, M))
            else:
                rep.fail("C06.A-pair", "array<%s,%d>" % (T, M), FILE, "values of the in-memory width are converted on load: not bit-identical")
    return []


def declare_c07(rep):
    rep.rule("C07.b", "array reader accepts on-disk widths 4 and 8 for float and double storage; widening is fpext (exact), narrowing fptrunc, equal width unconverted; counts and addresses width-independent", floor=4)
    rep.rule("C07.c-array", "array payload grammar equals the frozen format (width word, 8-byte count, M scalars per element in order)", floor=4)


def canonical_frame(fw):
    """(prefix byte pattern, width word, suffix byte pattern) by stream offset: [4,4,4,8] means two 4-byte constant words, a
    4-byte constant width word and an 8-byte count at offsets 0,4,8,12 - in however many write calls"""
    head, tail = fw["head"] or {}, fw["tail"] or {}
    cw = lambda m, o: o in m and m[o][0] == 4 and m[o][1][0] == 'ci'
    if fw["head_bytes"] == 20 and cw(head, 0) and cw(head, 4) and cw(head, 8) and (head.get(('src', 12), (0,))[0] == 8 or head.get(12, (0,))[0] == 8):
        pre = [4, 4, 4, 8]
    else:
        pre = [p[0] for p in fw["pre"]]
    suf = [4, 4] if fw["tail_bytes"] == 8 and cw(tail, 0) and cw(tail, 4) else [v[0] for k, v in sorted((k, v) for k, v in tail.items() if isinstance(k, int))]
    return pre, (head[8][1][1] if cw(head, 8) else None), suf


def extract_format():
    out = {}
    for hw, hr, fw, fr in facts("thorough"):
        if fw:
            T, M = hw.meta["T"], hw.meta["M"]
            pre_, ww_, suf_ = canonical_frame(fw)
            out["array<%s,%d>" % (T, M)] = {"prefix_bytes": pre_, "width_word": ww_, "per_element": [it["bytes"] for it in fw["loop_items"]], "suffix_bytes": suf_}
    return out


def run_c07(rep, tier):
    import json
    import os
    from .. import common
    frozen = json.load(open(os.path.join(common.VERIF, "spec", "format_v1.json"))).get("array") or {}
    for hw, hr, fw, fr in facts(tier):
        T, M = hw.meta["T"], hw.meta["M"]
        inst = "array<%s,%d>" % (T, M)
        if hw.error or hr.error:
            continue
        class Quiet:
            def fail(self, *a, **k):
                self.failed = a
            def ok(self, *a, **k):
                pass
        q = Quiet()
        br = check_reader(q, "x", hr, fr)
        if br is None and fr.get("undecided"):
            rep.undecided(fr["undecided"])
        elif br is None:
            rep.fail("C07.b", inst, FILE, "reader: " + str(getattr(q, "failed", ["", "", "", "?"])[3]))
        else:
            rep.ok("C07.b", inst, sample={"array reader": inst, "width4": [e["conv"] for e in br[4]["stores"]], "width8": [e["conv"] for e in br[8]["stores"]]} if M == 3 else None)
        shape = writer_shape(fw, frame=False)          # the frame itself is compared with the frozen format below
        if shape is None:
            bad, decided = writer_stream(fw, hw)
            if bad:
                rep.fail("C07.c-array", inst, FILE, bad)
            else:
                rep.undecided("array<%s,%d> writer: payload loop of an unrecognised shape: the on-disk grammar cannot be compared with the frozen format" % (T, M))
            continue
        if shape == "bulk":
            # one write of m_size * M * sizeof(scalar) buffer bytes: the same byte stream as M scalars per element in order (C06.A-write decides the size)
            pre_, ww_, suf_ = canonical_frame(fw)
            cur = {"prefix_bytes": pre_, "width_word": ww_, "per_element": [SZ[T]] * M, "suffix_bytes": suf_}
        else:
            per = [it["bytes"] for it in fw["loop_items"]]
            if sum(per) == M * SZ[T] and all(it["const"] == sum(per[:j]) for j, it in enumerate(fw["loop_items"])):
                per = [SZ[T]] * M       # writes that tile one element in order are the same byte stream as M scalar writes
            pre_, ww_, suf_ = canonical_frame(fw)
            cur = {"prefix_bytes": pre_, "width_word": ww_, "per_element": per, "suffix_bytes": suf_}
        if inst not in frozen:
            raise AnalysisBroken("array instantiation %s missing from the frozen format table" % inst)
        if cur != frozen[inst]:
            rep.fail("C07.c-array", inst, FILE, "array payload grammar changed: now %s, frozen %s" % (cur, frozen[inst]))
        else:
            rep.ok("C07.c-array", inst)
    return []


def declare_c08(rep):
    rep.rule("C08.f", "array reader: the width word is validated (4 or 8, else throw) before the count is read or anything is allocated", floor=4)
    rep.rule("C08.g", "array reader: every loop iteration performs reads whose stream-state test guards the stores and the loop's continuation; allocation size derives from a checked read", floor=4)
    rep.rule("C08.c-array", "array reader: no assertion reachable (assertion-enabled build)", floor=4)


def run_c08(rep, tier):
    for build, nd in (("NDEBUG", True), ("debug", False)):
        for hw, hr, fw, fr in facts(tier, nd):
            T, M = hr.meta["T"], hr.meta["M"]
            inst = "array<%s,%d>/%s" % (T, M, build)
            if hr.error:
                loc, msg = harness.first_error(hr)
                rep.fail("C08.f", inst, loc, "reader does not compile: " + msg)
                continue
            from .c08 import terminating_unwinds
            tu = terminating_unwinds(hr.func)
            if tu:
                rep.fail("C08.c-array", inst, ir.where(tu[0]), "an exception raised while reading unwinds into std::terminate (noexcept frame)")
            if fr["asserts"]:
                rep.fail("C08.c-array", inst, ir.where(fr["asserts"][0].inst), "an assertion can fail while reading")
            else:
                rep.ok("C08.c-array", inst)
            pre = fr["pre"]
            if not fr["prefix_ok"]:
                rep.undecided("array<%s,%d> reader: does not start with two header words, a 4-byte width word and an 8-byte count word (%d reads ahead of the payload loop); C08.f/g not decided" % (T, M, len(pre)))
                continue
            wcall, ccall = fr["width_call"].n, fr["count_call"].n
            pre = [None, None, fr["width_call"], fr["count_call"]]
            lits_count = ir.common_lits(pre[3].cond)
            okw = [l for l in lits_count if io.state_ok_epoch(l, 0) == wcall + 1]
            eq4 = ('cmp', 'eq', ('wr', wcall, 1, 0, 4, 'i32'), ('ci', 4, 32))
            eq8 = ('cmp', 'eq', ('wr', wcall, 1, 0, 4, 'i32'), ('ci', 8, 32))
            # the count is read only if width is 4 or 8: assuming both equalities false must make the path condition false
            validated = ir.restrict(ir.restrict(pre[3].cond, eq4, False), eq8, False) == ir.FALSE
            if not okw or not validated:
                rep.fail("C08.f", inst, ir.where(pre[2].inst), "the count word is read before the width word has been checked to be 4 or 8 (on a checked read)")
            else:
                rep.ok("C08.f", inst)
            why = None
            sym = fr["sym"]
            # shape-independent part: every read inside a loop is followed by a state test that guards every store of
            # the bytes it delivered and every back edge of the loops it is in, and whose failure throws
            tc = [c.cond for c in sym.calls if c.name == io.THROW]
            latches = getattr(sym, "latch_cond", {})
            for c in fr["loop"]:
                k = c.n
                hdrs = set(sym.in_loop(c.block))

                def on_my_path(x):
                    # the condition restricted to the rounds in which this read executes (e.g. its on-disk width branch)
                    return prune(assume(x, sorted(ir.common_lits(c.cond), key=lambda l: len(repr(l)))))
                mine = [ir.common_lits(on_my_path(x)) for (src, dst), x in latches.items() if dst in hdrs]
                mine = [x for x in mine if ir.FALSE not in x]
                stores = [(st, ir.common_lits(on_my_path(st.cond))) for st in fr["stores"]]
                lit = next((l for lits in [x for _, x in stores] + mine for l in lits if io.state_ok_epoch(l, 0) == k + 1), None)
                if lit is None:
                    why = "read #%d in the loop is not followed by a stream-state test before the loop goes round again: after a failed read the loop keeps reading (garbage, or a hang if its progress depends on the bytes delivered)" % k
                    break
                if any(lit not in lits for st, lits in stores if any(a[1] == k for a in io.wr_atoms(st.val))):
                    why = "a value from read #%d is stored although its state test may have failed" % k
                    break
                if not mine or not all(lit in x for x in mine):
                    why = "the loop continues although the state test after read #%d may have failed" % k
                    break
                if not any(ir.occurs_positive(x, ir.mk_not(lit)) for x in tc) or fr["asserts"]:
                    why = "no throw is taken exactly when the state test after read #%d fails" % k
                    break
            for c in (fr["bulk"] if why is None else []):
                # a bulk payload read outside any loop: its state test must guard the footer reads and the normal return
                k = c.n
                mylits = sorted(ir.common_lits(c.cond), key=lambda l: len(repr(l)))
                later = [prune(assume(x, mylits)) for x in [r.cond for r in fr["post"]] + [rc for rc, _ in sym.ret_cond]]
                later = [x for x in later if not dead(x)]
                lit = next((l for x in later for l in ir.common_lits(x) if io.state_ok_epoch(l, 0) == k + 1), None)
                if lit is None or not all(lit in ir.common_lits(x) for x in later):
                    why = "the bulk read #%d of the payload is not followed by a stream-state test that guards the footer reads and the normal return" % k
                    break
                if not any(ir.occurs_positive(x, ir.mk_not(lit)) for x in tc):
                    why = "no throw is taken when the state test after the bulk read #%d fails" % k
                    break
            if why is None and not fr["loop"] and fr["loops"]:
                why = "no read inside the element loop"
            if why is None and reader_shape(fr) is None:
                rep.undecided("array<%s,%d> reader: payload loop of an unrecognised shape (%d loops): per-width coverage of C08.g not decided" % (T, M, len(fr["loops"])))
                continue
            br, err = (None, None) if why else reader_branches(hr, fr)
            if err:
                why = err
            for width in ((4, 8) if why is None else ()):
                b = br[width]
                if b.get("bulk"):
                    continue        # decided above (state test after the bulk read)
                if not b["reads"]:
                    why = "for on-disk width %d the loop reads nothing: it can go round without a checked read" % width
            # allocation size from checked count
            for nw in fr["news"]:
                if not any(io.state_ok_epoch(l, 0) == ccall + 1 for l in ir.common_lits(nw.cond)):
                    why = "the buffer is allocated from the count word before that read has been checked"
            if why:
                rep.fail("C08.g", inst, FILE, why)
            else:
                rep.ok("C08.g", inst)
    return []
