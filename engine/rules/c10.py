"""C10  Clamping makes every coordinate safe.

E3 + D-ord.  For each instantiation clamp<probe<S,N>> the lookup must make
exactly one backend query, unconditionally; argument k of that query must be a
comparison/select tree over {c_k, lo_k, hi_k} only, and evaluated on every weak
ordering of those three atoms with lo <= hi it must be clamp(c_k, lo_k, hi_k);
comparison predicates must have the signedness of the coordinate type.  The
result must be the backend's value, component by component.  Values touched
only through comparisons have finitely many order types, so this is complete
for every coordinate value (extremes and infinities are just orderings).
"""
from .. import harness, ir
from ..common import Report, AnalysisBroken
from ..harness import Harness, STYPES

FILE = "lib/core/covfie/core/backend/transformer/clamp.hpp"


def make(N, s, route="direct"):
    ct = STYPES[s][0]
    args = [(ct, ('c', k)) for k in range(N)] + [(ct, ('lo', k)) for k in range(N)] + [(ct, ('hi', k)) for k in range(N)] + [("std::uint64_t", 'tag')]
    a = lambda role: "a%d" % [r for _, r in args].index(role)
    body = """
  %s
  B::non_owning_data_t v(o);
  auto r = v.at({%s});
  out[0] = r[0]; out[1] = r[1];
""" % (harness.construct(route, "clamp", "%s, %d, float, 2" % (ct, N),
                         "B::configuration_t{{%s}, {%s}}" % (", ".join(a(('lo', k)) for k in range(N)), ", ".join(a(('hi', k)) for k in range(N))), a('tag')),
       ", ".join(a(('c', k)) for k in range(N)))
    return Harness("clamp_%s_%d_%s" % (s, N, route), args, body, out=("float", 2), meta={"N": N, "S": s, "route": route})


def inf_cases(rank, kind):
    """For floating coordinates an ordering also comes with the choice whether its greatest atoms are +inf and its least
    atoms are -inf (infinities are ordinary coordinates; NaN is excluded by the property)."""
    if kind != 'float':
        return [{}]
    top, bot = max(rank.values()), min(rank.values())
    T = {a: 1 for a, r in rank.items() if r == top}
    B = {a: -1 for a, r in rank.items() if r == bot}
    out = [{}, T, B]
    if top != bot:
        both = dict(T)
        both.update(B)
        out.append(both)
    return out


def expected_clamp(rank, c, lo, hi):
    if rank[c] < rank[lo]:
        return rank[lo]
    if rank[c] > rank[hi]:
        return rank[hi]
    return rank[c]


def declare(rep):
    rep.rule("C10.compile", "clamp<probe<S,N>> lookup harness compiles", floor=8)
    rep.rule("C10.one-query", "exactly one backend query, executed unconditionally, on the view's own backend", floor=8)
    rep.rule("C10.dep", "query argument k depends on {c_k, lo_k, hi_k} only, through comparisons and selects", floor=16)
    rep.rule("C10.ord", "on every weak ordering of (c_k, lo_k, hi_k) with lo<=hi the argument equals clamp(c_k, lo_k, hi_k)", floor=100)
    rep.rule("C10.pred", "comparison predicates have the coordinate type's signedness / are floating comparisons", floor=16)
    rep.rule("C10.out", "result component q is exactly component q of the queried backend value", floor=16)


def harnesses(tier):
    Ns = (1, 2, 3) if tier == "quick" else (1, 2, 3, 4)
    hs = [make(N, s) for N in Ns for s in ("size_t", "unsigned", "int", "float", "double")]
    # the same contract along every other construction route
    for i, route in enumerate(harness.ROUTES[2:]):  # clamp and backup have no converting constructor
        for N in (Ns if tier != "quick" else (1 + i % 3,)):
            hs.append(make(N, ("int", "float", "size_t")[(i + N) % 3], route))
    return hs


def run(rep, tier):
    hs = harnesses(tier)
    harness.build(hs, "c10")
    orders = list(ir.weak_orderings(3))
    for h in hs:
        inst = "clamp<%s,%d>" % (h.meta["S"], h.meta["N"]) + (" via " + h.meta["route"] if h.meta.get("route", "direct") != "direct" else "")
        if h.error:
            loc, msg = harness.first_error(h)
            rep.fail("C10.compile", inst, loc, "does not compile: " + msg)
            continue
        rep.ok("C10.compile", inst)
        s = ir.Sym(h.func)
        if s.unknown:
            raise AnalysisBroken("C10 %s: unmodelled instruction %s" % (inst, s.unknown[0]["op"]))
        sinks = s.opaque_calls("_ZN5verif4sink")
        others = [c for c in s.calls if c not in sinks]
        if not sinks or others:
            rep.fail("C10.one-query", inst, FILE, "expected exactly one backend query, found %d (other calls: %s)" % (
                len(sinks), [c.dname for c in others][:3]))
            continue
        if len(sinks) != 1 or sinks[0].cond != ir.TRUE:
            check_sites(rep, h, s, sinks, inst, orders)
            continue
        call = sinks[0]
        if call.args[0] != h.atom('tag'):
            rep.fail("C10.one-query", inst, ir.where(call.inst), "query is not made on the backend view built from the owning backend (tag %s)" % ir.show(call.args[0]))
        else:
            rep.ok("C10.one-query", inst)
        kind = STYPES[h.meta["S"]][1]
        N = h.meta["N"]
        if len(call.args) != N + 1:
            rep.fail("C10.dep", inst, ir.where(call.inst), "backend queried with %d components, expected %d" % (len(call.args) - 1, N))
            continue
        for k in range(N):
            c, lo, hi = h.atom(('c', k)), h.atom(('lo', k)), h.atom(('hi', k))
            t = call.args[1 + k]
            at = ir.atoms(t)
            ki = "%s[%d]" % (inst, k)
            names = {c: "c%d" % k, lo: "lo%d" % k, hi: "hi%d" % k}
            if not at <= {c, lo, hi} or c not in at:
                rep.fail("C10.dep", ki, ir.where(call.inst), "argument depends on %s, expected {c%d, lo%d, hi%d}: %s" % (
                    sorted(ir.show(a) for a in at), k, k, k, ir.show(t, names)))
                continue
            arith = []
            ir.walk(t, lambda x: arith.append(x) if x[0] in ('cast', 'op') else None)
            if arith:
                rep.fail("C10.dep", ki, ir.where(call.inst), "the coordinate is converted or computed with on its way to the backend (clamping may only compare and select): %s" % ir.show(arith[0], names)[:120])
                continue
            rep.ok("C10.dep", ki)
            bad_pred = set()
            for r in orders:
                rank = {c: r[0], lo: r[1], hi: r[2]}
                if rank[lo] > rank[hi]:
                    continue
                failed = False
                oi = "%s c,lo,hi ranks=%s" % (ki, r)
                for inf in inf_cases(rank, kind):
                    ev = ir.OrdEval(rank, kind, inf)
                    v = ev.value(t)
                    tag = "" if not inf else " with " + ", ".join("%s = %sinf" % (names.get(a, ir.show(a)), "+" if sg > 0 else "-") for a, sg in inf.items())
                    if v is None:
                        raise AnalysisBroken("C10 %s: argument is not a comparison/select tree over its atoms: %s" % (ki, ir.show(t, names)))
                    if v not in rank:
                        rep.fail("C10.ord", ki, ir.where(call.inst), "for ordering ranks(c,lo,hi)=%s%s the backend is queried at %s, which is none of c, lo, hi" % (r, tag, ir.show(v, names)[:80]), {"ordering": r})
                        failed = True
                        break
                    bad_pred |= set(ev.bad_pred)
                    if rank[v] != expected_clamp(rank, c, lo, hi):
                        rep.fail("C10.ord", ki, ir.where(call.inst), "for ordering ranks(c,lo,hi)=%s%s the backend is queried at %s instead of the clamp; argument = %s" % (
                            r, tag, names.get(v, ir.show(v)), ir.show(t, names)), {"ordering": r})
                        failed = True
                        break
                if failed:
                    break
                rep.ok("C10.ord", oi, sample={"instance": ki, "ranks(c,lo,hi)": r, "result": names[v]} if (k == 0 and r == (0, 1, 2)) else None)
            if bad_pred:
                rep.fail("C10.pred", ki, ir.where(call.inst), "comparison predicate(s) %s do not match coordinate kind %s" % (sorted(bad_pred), kind))
            else:
                rep.ok("C10.pred", ki)
        outs = s.outputs(h.out_index)
        for q in range(2):
            t = outs.get(4 * q)
            exp = ('ld', ('ret', call.n), 4 * q, 4, 'float', 0)
            qi = "%s out[%d]" % (inst, q)
            if t != exp:
                rep.fail("C10.out", qi, FILE, "result is %s, expected the backend value's component %d" % (ir.show(t) if t else "never written", q))
            else:
                rep.ok("C10.out", qi)
    return hs


def check_sites(rep, h, s, sinks, inst, orders):
    """Several query sites, or a conditional one (a fast path for coordinates already inside the box): decided on every
    product of per-component orderings - exactly one site executes and its arguments are the clamp."""
    import itertools
    kind = STYPES[h.meta["S"]][1]
    N = h.meta["N"]
    atoms3 = [(h.atom(('c', k)), h.atom(('lo', k)), h.atom(('hi', k))) for k in range(N)]
    for call in sinks:
        if call.args[0] != h.atom('tag') or len(call.args) != N + 1:
            rep.fail("C10.one-query", inst, ir.where(call.inst), "a query site is not on the backend view built from the owning backend, or has %d components" % (len(call.args) - 1))
            return
        for k in range(N):
            t = call.args[1 + k]
            at = ir.atoms(t)
            if not at <= set(atoms3[k]) or atoms3[k][0] not in at:
                rep.fail("C10.dep", "%s[%d]" % (inst, k), ir.where(call.inst), "argument depends on %s, expected {c%d, lo%d, hi%d}" % (sorted(ir.show(a) for a in at), k, k, k))
                return
            arith = []
            ir.walk(t, lambda x: arith.append(x) if x[0] in ('cast', 'op') else None)
            if arith:
                rep.fail("C10.dep", "%s[%d]" % (inst, k), ir.where(call.inst), "the coordinate is converted or computed with on its way to the backend (clamping may only compare and select): %s" % ir.show(arith[0])[:120])
                return
    outs = s.outputs(h.out_index)
    ok_orders = [r for r in orders if r[1] <= r[2]]
    bad_pred = set()
    n = 0
    for combo in itertools.product(ok_orders, repeat=N):
        rank = {}
        for (c, lo, hi), r in zip(atoms3, combo):
            rank.update({c: r[0], lo: r[1], hi: r[2]})
        ev = ir.OrdEval(rank, kind)
        truth = [ev.cond(c.cond) for c in sinks]
        if any(t is None for t in truth):
            raise AnalysisBroken("C10 %s: the condition of a query site is not a comparison tree over the coordinate and the box" % inst)
        act = [c for c, t in zip(sinks, truth) if t]
        if len(act) != 1:
            rep.fail("C10.one-query", inst, FILE, "for per-component ranks (c,lo,hi)=%s %d backend queries execute, expected exactly one" % (list(combo), len(act)), {"ordering": combo})
            return
        for k in range(N):
            v = ev.value(act[0].args[1 + k])
            if v is None or v not in rank:
                raise AnalysisBroken("C10 %s[%d]: argument is not a comparison/select tree over its atoms" % (inst, k))
            c, lo, hi = atoms3[k]
            if rank[v] != expected_clamp(rank, c, lo, hi):
                rep.fail("C10.ord", "%s[%d]" % (inst, k), ir.where(act[0].inst), "for per-component ranks (c,lo,hi)=%s the backend is queried at %s in component %d instead of the clamp" % (
                    list(combo), {c: "c", lo: "lo", hi: "hi"}[v], k), {"ordering": combo})
                return
        for q in range(2):
            t = outs.get(4 * q)
            while t is not None and t[0] == 'sel':
                cnd = ev.cond(t[1])
                if cnd is None:
                    raise AnalysisBroken("C10 %s: output select is not order-evaluable" % inst)
                t = t[2] if cnd else t[3]
            if t != ('ld', ('ret', act[0].n), 4 * q, 4, 'float', 0):
                rep.fail("C10.out", "%s out[%d]" % (inst, q), FILE, "for per-component ranks %s the result is %s, expected component %d of the value just queried" % (list(combo), ir.show(t) if t else "never written", q))
                return
        bad_pred |= set(ev.bad_pred)
        n += 1
        rep.ok("C10.ord", "%s ranks=%s" % (inst, combo))
    rep.ok("C10.one-query", inst)
    for k in range(N):
        rep.ok("C10.dep", "%s[%d]" % (inst, k))
        if bad_pred:
            rep.fail("C10.pred", "%s[%d]" % (inst, k), FILE, "comparison predicate(s) %s do not match coordinate kind %s" % (sorted(bad_pred), kind))
        else:
            rep.ok("C10.pred", "%s[%d]" % (inst, k))
    for q in range(2):
        rep.ok("C10.out", "%s out[%d]" % (inst, q))


def check(tier):
    rep = Report("C10", tier, "proof")
    declare(rep)
    hs = run(rep, tier)
    rep.assumptions = ["NaN coordinates excluded (as in the property)", "box satisfies lo <= hi",
                       "memory safety over array storage follows by composing with C01 (index map into the allocated range)"]
    rep.extra["instantiations"] = [h.name for h in hs]
    return rep.finish(
        "Abstract evaluation over order types (D-ord) of the optimised, loop-free IR of clamp<probe<S,N>>::at for N in %s and "
        "S in {size_t, unsigned, int, float, double}: per component all 13 weak orderings of (c, lo, hi) restricted to lo<=hi are evaluated "
        "on the select/compare tree that feeds the single backend query; plus dependence, predicate-signedness and result-routing facts. "
        "Complete for all coordinate values of each instantiation because the argument touches its inputs only through comparisons." % (sorted({h.meta["N"] for h in hs}),),
        "bin/vcheck C10 (clang++ -O2 -emit-llvm | build/irdump | engine/ir.py OrdEval)",
        ["clang 14 -O2 IR faithful to source", "engine/ir.py term builder and OrdEval"], exhaustive=True)
