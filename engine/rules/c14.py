"""C14  Storage orders follow their published curves.

E3.  Row-major: the flat index handed to the storage backend, canonicalised as
a polynomial modulo 2^64 (D-poly), must equal sum_k c_k * prod_{l>k} s_l; the
dependence form (term k involves exactly c_k and the extents after k) is
reported too.  Morton: bit provenance (D-bits) of the flat index: for every
i < floor(64/N), output bit i*N+j is bit i of coordinate j, every other output
bit is 0 or depends only on coordinate bits outside the stated domain - for
the portable and for the BMI2 (pdep) implementation alike, hence they agree bit
for bit.  Hilbert: see c14_hilbert (side-length agreement only).
"""
from .. import harness, ir
from ..common import Report, AnalysisBroken
from ..harness import Harness, STYPES

STRIDED = "lib/core/covfie/core/backend/transformer/strided.hpp"
MORTON = "lib/core/covfie/core/backend/transformer/morton.hpp"


def make_strided(N, s, M=2, T="float", route="direct"):
    ct = STYPES[s][0]
    args = [(ct, ('c', k)) for k in range(N)] + [("std::size_t", ('s', k)) for k in range(N)] + [("std::uint64_t", 'tag')]
    a = lambda role: "a%d" % [r for _, r in args].index(role)
    body = """
  %s
  B::non_owning_data_t v(o);
  auto & r = v.at({%s});
  %s
""" % (harness.construct(route, "strided", None, "B::configuration_t{%s}" % ", ".join(a(('s', k)) for k in range(N)), a('tag'),
                         types="using P = verif::aprobe<%s, %d>; using B = strided<verif::vd<%s, %d>, P>;\n" % (T, M, ct, N)),
       ", ".join(a(('c', k)) for k in range(N)),
       " ".join("out[%d] = r[%d];" % (q, q) for q in range(M)))
    return Harness("strided_%s_%d%s" % (s, N, "" if route == "direct" else "_" + route), args, body, out=(T, M), meta={"N": N, "S": s, "M": M, "T": T, "layer": "strided", "route": route})


def make_morton(N, s, bmi2, M=2, T="float", route="direct"):
    ct = STYPES[s][0]
    args = [(ct, ('c', k)) for k in range(N)] + [("std::size_t", ('s', k)) for k in range(N)] + [("std::uint64_t", 'tag')]
    a = lambda role: "a%d" % [r for _, r in args].index(role)
    body = """
  %s
  B::non_owning_data_t v(o);
  auto & r = v.at({%s});
  %s
""" % (harness.construct(route, "morton", None, "B::configuration_t{%s}" % ", ".join(a(('s', k)) for k in range(N)), a('tag'),
                         types="using P = verif::aprobe<%s, %d>; using B = morton<verif::vd<%s, %d>, P, %s>;\n" % (T, M, ct, N, "true" if bmi2 else "false")),
       ", ".join(a(('c', k)) for k in range(N)),
       " ".join("out[%d] = r[%d];" % (q, q) for q in range(M)))
    return Harness("morton_%s_%d_%s%s" % (s, N, "pdep" if bmi2 else "port", "" if route == "direct" else "_" + route), args, body, out=(T, M),
                   meta={"N": N, "S": s, "M": M, "T": T, "layer": "morton", "bmi2": bmi2, "route": route})


def make_morton_static(N, s, bmi2):
    """the static index function, as the re-layout writer calls it"""
    ct = STYPES[s][0]
    args = [(ct, ('c', k)) for k in range(N)]
    body = """
  using B = morton<verif::vd<%s, %d>, verif::aprobe<float, 1>, %s>;
  return B::calculate_index({%s});
""" % (ct, N, "true" if bmi2 else "false", ", ".join("a%d" % k for k in range(N)))
    return Harness("mortonidx_%s_%d_%s" % (s, N, "pdep" if bmi2 else "port"), args, body, ret="std::size_t",
                   meta={"N": N, "S": s, "layer": "morton-static", "bmi2": bmi2})


def one_sink(rep, rid, h, s, inst, file):
    sinks = s.opaque_calls("_ZN5verif4sink")
    others = [c for c in s.calls if c not in sinks]
    if len(sinks) != 1 or sinks[0].cond != ir.TRUE or others:
        rep.fail(rid, inst, file, "expected exactly one unconditional storage query, found %d (other calls %s)" % (len(sinks), [c.dname for c in others][:3]))
        return None
    call = sinks[0]
    if len(call.args) != 2 or call.args[0] != h.atom('tag'):
        rep.fail(rid, inst, ir.where(call.inst), "storage queried with %d index arguments / wrong view" % (len(call.args) - 1))
        return None
    rep.ok(rid, inst)
    return call


def check_out(rep, rid, h, s, call, inst, file):
    M, T = h.meta["M"], h.meta["T"]
    tsz = 4 if T == "float" else 8
    outs = s.outputs(h.out_index)
    for q in range(M):
        exp = ('ld', ('ret', call.n), tsz * q, tsz, T, 0)
        if outs.get(tsz * q) != exp:
            rep.fail(rid, "%s out[%d]" % (inst, q), file, "result component %d is %s, not component %d of the stored vector" % (q, ir.show(outs.get(tsz * q)) if outs.get(tsz * q) else "unwritten", q))
        else:
            rep.ok(rid, "%s out[%d]" % (inst, q))


def narrow_ops(t, width=64):
    """operations on the index path performed at fewer than `width` bits"""
    bad = []

    def f(x):
        if x[0] == 'op' and x[2].startswith('i') and x[2][1:].isdigit() and int(x[2][1:]) < width and x[1] in ('add', 'mul', 'sub', 'shl'):
            bad.append(x)
        if x[0] == 'cast' and x[1] == 'trunc':
            bad.append(x)
    ir.walk(t, f)
    return bad


def check_strided(rep, h):
    N, S = h.meta["N"], h.meta["S"]
    inst = "strided<%s,%d>" % (S, N) + (" via " + h.meta["route"] if h.meta.get("route", "direct") != "direct" else "")
    if h.error:
        loc, msg = harness.first_error(h)
        rep.fail("C14.compile", inst, loc, "does not compile: " + msg)
        return
    rep.ok("C14.compile", inst)
    s = ir.Sym(h.func)
    if s.unknown:
        raise AnalysisBroken("C14 %s: unmodelled instruction %s" % (inst, s.unknown[0]["op"]))
    call = one_sink(rep, "C14.one-query", h, s, inst, STRIDED)
    if call is None:
        return
    idx = call.args[1]
    names = {}
    for k in range(N):
        names[h.atom(('c', k))] = "c%d" % k
        names[h.atom(('s', k))] = "s%d" % k
    p = ir.to_poly(idx, 'int', width=64)
    exp = ir.Poly({}, 1 << 64)
    for k in range(N):
        mon = ir.Poly.atom(h.atom(('c', k)), 1 << 64)
        for l in range(k + 1, N):
            mon = mon * ir.Poly.atom(h.atom(('s', l)), 1 << 64)
        exp = exp + mon
    if p != exp:
        rep.fail("C14.a", inst, ir.where(call.inst), "flat index is %s, expected %s" % (p.show(names), exp.show(names)))
    else:
        rep.ok("C14.a", inst, sample={"instance": inst, "flat_index_polynomial": p.show(names)})
    # dependence form: every monomial has exactly one coordinate, and with c_k exactly the extents after k
    dep_ok = True
    for mon in p.t:
        cs = [a for a in mon if a in names and names[a].startswith("c")]
        ss = sorted(names[a] for a in mon if a in names and names[a].startswith("s"))
        if len(cs) != 1 or len(mon) != len(cs) + len(ss):
            dep_ok = False
            continue
        k = int(names[cs[0]][1:])
        if ss != ["s%d" % l for l in range(k + 1, N)]:
            dep_ok = False
    if dep_ok and len(p.t) == N:
        rep.ok("C14.a-dep", inst)
    else:
        rep.fail("C14.a-dep", inst, ir.where(call.inst), "stride terms mix axes: %s" % p.show(names))
    bad = narrow_ops(idx)
    if bad:
        rep.fail("C01.e", inst, ir.where(call.inst), "flat index arithmetic narrower than the 64-bit storage index: %s" % ir.show(bad[0], names)[:200])
    else:
        rep.ok("C01.e", inst)
    check_out(rep, "C14.out", h, s, call, inst, STRIDED)


def morton_expect(rep, inst, bits, h, where, rid):
    N, S = h.meta["N"], h.meta["S"]
    w = STYPES[S][2]
    signed = STYPES[S][1] == "signed"
    dom = 64 // N
    ok = True
    for pos in range(64):
        b = bits[pos]
        i, j = divmod(pos, N)
        cj = h.atom(('c', j))
        if i < dom:
            if i < w:
                good = (b == ('in', cj, i))
            else:
                # value bits above the coordinate type's width: 0, or the sign bit for signed types (0 on the non-negative domain)
                good = (b == 0) or (signed and b == ('in', cj, w - 1))
            if not good:
                if isinstance(b, tuple) and b[0] == 'top' and any(isinstance(d[0], tuple) and d[0] and d[0][0] in ('poison', 'undef') for d in b[1]):
                    rep.fail(rid, inst, where, "index bit %d is undefined: the computation shifts or indexes outside its type for part of the stated domain (LLVM reduced it to poison)" % pos, {"bit": pos})
                    return False
                if isinstance(b, tuple) and b[0] == 'top':
                    raise AnalysisBroken("C14 %s: index bit %d is computed by operations the bit-provenance domain does not model (%s); cannot decide - re-confirm by reading" % (inst, pos, showbit(b, h)[:100]))
                rep.fail(rid, inst, where, "index bit %d should be bit %d of coordinate %d, is %s" % (pos, i, j, showbit(b, h)), {"bit": pos})
                return False
        else:
            # outside the stated domain: must be 0 or depend only on coordinate bits >= dom
            if not (b == 0 or outside(b, dom, w)):
                rep.fail(rid, inst, where, "index bit %d (outside the domain) depends on in-domain coordinate bits: %s" % (pos, showbit(b, h)), {"bit": pos})
                return False
    return ok


def outside(b, dom, w):
    if isinstance(b, int):
        return True
    if b[0] == 'in':
        return b[2] >= dom or b[2] == w - 1
    return all(i >= dom or i == w - 1 for (_, i) in b[1])


def showbit(b, h):
    if isinstance(b, int):
        return str(b)
    if b[0] == 'in':
        return "bit %d of %s" % (b[2], ir.show(b[1]))
    return "f(%s)" % ", ".join("%s.bit%d" % (ir.show(a), i) for a, i in sorted(b[1], key=repr)[:6])


def check_morton(rep, h):
    N, S, bmi2 = h.meta["N"], h.meta["S"], h.meta["bmi2"]
    static = h.meta["layer"] == "morton-static"
    inst = "%s<%s,%d,%s>" % ("morton::calculate_index" if static else "morton", S, N, "pdep" if bmi2 else "portable") + (" via " + h.meta["route"] if h.meta.get("route", "direct") != "direct" else "")
    if h.error:
        loc, msg = harness.first_error(h)
        rep.fail("C14.compile", inst, loc, "does not compile: " + msg)
        return None
    rep.ok("C14.compile", inst)
    s = ir.Sym(h.func)
    if s.unknown:
        raise AnalysisBroken("C14 %s: unmodelled instruction %s" % (inst, s.unknown[0]["op"]))
    if static:
        if s.calls:
            rep.fail("C14.one-query", inst, MORTON, "static index function makes calls: %s" % [c.dname for c in s.calls][:3])
            return None
        idx = s.retval()
        loc = MORTON
    else:
        call = one_sink(rep, "C14.one-query", h, s, inst, MORTON)
        if call is None:
            return None
        idx = call.args[1]
        loc = ir.where(call.inst)
    used_pdep = []
    ir.walk(idx, lambda x: used_pdep.append(x) if x[0] == 'fn' and 'pdep' in x[1] else None)
    if bmi2 and N == 1:
        pass    # pdep with an all-ones mask is the identity and is folded away
    elif bmi2 and not used_pdep:
        rep.fail("C14.c-impl", inst, MORTON, "BMI2 instantiation compiled with -mbmi2 does not use pdep (the pdep path is not the one analysed)")
    elif bmi2:
        rep.ok("C14.c-impl", inst)
    aw = {h.atom(('c', k)): STYPES[S][2] for k in range(N)}
    bits = ir.to_bits(idx, 64, aw)
    rid = "C14.c" if bmi2 else "C14.b"
    if morton_expect(rep, inst, bits, h, loc, rid):
        rep.ok(rid, inst, sample={"instance": inst, "bit0..7": [showbit(b, h) for b in bits[:8]]} if N == 3 and S == "size_t" else None)
    if not static:
        check_out(rep, "C14.out", h, s, call, inst, MORTON)
    return bits


def harnesses(tier):
    Ns = (1, 2, 3) if tier == "quick" else (1, 2, 3, 4)
    Ss = ("size_t", "int") if tier == "quick" else ("size_t", "unsigned", "int")
    hs_s = [make_strided(N, s) for N in Ns for s in Ss]
    # dimension-dispatched index code (if constexpr (N == ...)) is cheap to cover: strided alone goes two dimensions further
    hs_s += [make_strided(N, "size_t") for N in range(max(Ns) + 1, max(Ns) + 3)]
    # the same contracts along the other construction routes (parameter packs, copies, assignment, move): a member that only some
    # constructors derive from the extents shows on the routes that forget it
    routes = [r for r in harness.ROUTES[2:] if r != "assign"]      # the default constructor of a storage-order layer needs an array-like backend
    hs_s += [make_strided(2 + i % 2, "size_t", route=r) for i, r in enumerate(routes)]
    hs_mp = [make_morton(N, s, False) for N in Ns for s in Ss] + [make_morton_static(N, s, False) for N in Ns for s in Ss]
    hs_mp += [make_morton(2 + i % 2, "size_t", False, route=r) for i, r in enumerate(r_ for r_ in harness.ROUTES[2:] if r_ != "assign")]
    hs_mb = [make_morton(N, s, True) for N in Ns for s in Ss] + [make_morton_static(N, s, True) for N in Ns for s in Ss]
    return hs_s, hs_mp, hs_mb


def run(rep, tier):
    hs_s, hs_mp, hs_mb = harnesses(tier)
    harness.build(hs_s + hs_mp, "c14a")
    harness.build(hs_mb, "c14b", extra=("-mbmi2",))
    for h in hs_s:
        check_strided(rep, h)
    got = {}
    for h in hs_mp + hs_mb:
        bits = check_morton(rep, h)
        got[(h.meta["layer"], h.meta["N"], h.meta["S"], h.meta["bmi2"])] = bits
    # sibling agreement on the domain
    for (layer, N, S, bmi2), bits in got.items():
        if bmi2 or bits is None:
            continue
        other = got.get((layer, N, S, True))
        inst = "%s<%s,%d>" % (layer, S, N)
        if other is None:
            continue
        dom = 64 // N
        diff = [p for p in range(dom * N) if bits[p] != other[p]]
        if diff:
            rep.fail("C14.agree", inst, MORTON, "portable and pdep implementations differ at index bit %d" % diff[0])
        else:
            rep.ok("C14.agree", inst)
    return hs_s + hs_mp + hs_mb


def declare(rep):
    rep.rule("C14.compile", "storage-order lookup harness compiles", floor=12)
    rep.rule("C14.one-query", "exactly one unconditional storage query on the view's own backend", floor=8)
    rep.rule("C14.a", "row-major flat index == sum_k c_k*prod_{l>k} s_l as a polynomial mod 2^64 (D-poly)", floor=4)
    rep.rule("C14.a-dep", "row-major: term k involves exactly c_k and the extents after k (dependence form)", floor=4)
    rep.rule("C01.e", "flat index is accumulated at the width of the storage index type", floor=4)
    rep.rule("C14.b", "Morton portable: index bit i*N+j is bit i of coordinate j for i < floor(64/N); other bits 0 or out-of-domain (D-bits)", floor=4)
    rep.rule("C14.c", "Morton BMI2 (pdep, -mbmi2): same bit table", floor=4)
    rep.rule("C14.c-impl", "the BMI2 instantiation really is the pdep implementation (N >= 2)", floor=4)
    rep.rule("C14.agree", "portable and BMI2 implementations agree bit for bit on the domain", floor=4)
    rep.rule("C14.out", "result is the stored vector's components", floor=8)


class only:
    """forward only the rules that are declared in the report"""

    def __init__(self, rep):
        self.rep = rep

    def __getattr__(self, k):
        return getattr(self.rep, k)

    def ok(self, rid, *a, **kw):
        if rid in self.rep.rules:
            self.rep.ok(rid, *a, **kw)

    def fail(self, rid, *a, **kw):
        if rid in self.rep.rules:
            self.rep.fail(rid, *a, **kw)


def check(tier):
    from . import c14_hilbert
    rep = Report("C14", tier, "proof")
    declare(rep)
    c14_hilbert.declare(rep)
    hs = run(rep, tier)
    c14_hilbert.run(rep, tier)
    # the published position must also be where a layout conversion WRITES each element (rule C05.b of relayout/c05)
    from . import c05
    c05.declare(rep)
    for r in ("C05.g", "C05.f", "C05.a", "C05.cuda", "C05.c", "C05.d", "C05.e"):
        rep.rules.pop(r, None)
    c05.run_conversions(only(rep), "quick")
    rep.assumptions = ["coordinates non-negative and below 2^floor(64/N) (the property's domain)",
                       "Hilbert: only side-length/extent agreement is decided; bijectivity and adjacency of the walk are not (data-dependent loop)"]
    rep.extra["instantiations"] = [h.name for h in hs]
    return rep.finish(
        "Row-major: the optimised IR's flat-index expression is canonicalised as a polynomial over (c_k, s_l) modulo 2^64 and compared with the published formula. "
        "Morton: every one of the 64 index bits is traced to its source bit through and/or/shl/pdep (bit provenance) for both implementations, which is complete for all "
        "coordinates of each instantiation. Hilbert: the walk is a data-dependent loop, so only the agreement of its side length with the allocation is decided.",
        "bin/vcheck C14 (clang++ -O2 [-mbmi2] -emit-llvm | build/irdump | engine/ir.py to_poly/to_bits)",
        ["clang 14 -O2 IR faithful to source", "engine/ir.py D-poly and D-bits transfer functions", "x86 pdep semantics as modelled in to_bits"], exhaustive=True)
