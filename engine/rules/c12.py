"""C12  Fields stay independent values under any history of copy, move, assign, convert.

Histories are handled the only way static analysis can: a representation invariant - every owning object exclusively
owns a buffer of exactly m_size elements (or none) - that each operation must preserve.
  C12.a  resources are owned only through std::unique_ptr members: lib/core and lib/cpu contain no new/delete
         expression, malloc/free, or pointer-typed member in an owning_data_t (token scan, comments stripped)
  C12.b  deep copy: the array backend's copy constructor and copy assignment allocate a fresh buffer of exactly
         source.m_size elements, copy exactly m_size*sizeof(element) bytes from the source's buffer into it, and leave
         m_size == source.m_size, m_ptr == the fresh buffer                                (D-route on optimised IR)
  C12.c  self-assignment: in copy assignment every mutation of the target (stores to its members, release of its old
         buffer) is either guarded by `this != &other` or happens after the last read of the source
  C12.d  copy assignment returns *this
  C12.e  every wrapper layer's owning type adds no ownership of its own: over a trivially copyable inner backend the
         layer's owning_data_t is itself trivially copyable (compile witness), so value semantics is inherited memberwise
  C12.f  views are built from const owning_data_t& and point into that object's buffer (rule C01.d)
Not decided: lifetimes of views chosen by user code; operations on moved-from objects.
"""
import os
import re

from .. import common, harness, ir
from ..common import Report, AnalysisBroken, Witness
from ..harness import Harness
from . import c01, c05, c13

FILE = "lib/core/covfie/core/backend/primitive/array.hpp"


def h_copy(T, M):
    body = "  using O = array<verif::vd<%s, %d>>::owning_data_t;\n  new (a0) O(*static_cast<const O *>(a1));\n" % (T, M)
    return Harness("own_copy_%s%d" % (T, M), [("void *", 'dst'), ("const void *", 'src')], body, meta={"T": T, "M": M, "kind": "copy-construct"})


def h_assign(T, M):
    body = "  using O = array<verif::vd<%s, %d>>::owning_data_t;\n  O & d = *static_cast<O *>(a0);\n  return reinterpret_cast<std::size_t>(&(d = *static_cast<const O *>(a1)));\n" % (T, M)
    return Harness("own_assign_%s%d" % (T, M), [("void *", 'dst'), ("const void *", 'src')], body, ret="std::size_t", meta={"T": T, "M": M, "kind": "copy-assign"})


def declare(rep):
    rep.rule("C12.a", "no new/delete/malloc/free and no pointer-typed owning member in the library headers (a hit is exit 2: outside what the ownership rules cover)", floor=25)
    rep.rule("C12.b", "array copy operations allocate source.m_size elements, copy exactly that many bytes from the source buffer, and leave (m_size, m_ptr) = (source.m_size, fresh buffer)", floor=4)
    rep.rule("C12.c", "copy assignment: target is mutated only under this != &other, or only after the last read of the source", floor=2)
    rep.rule("C12.d", "copy assignment returns *this", floor=2)
    rep.rule("C12.e", "wrapper layers' owning types are trivially copyable over a trivially copyable inner backend (no ownership of their own)", floor=10)


def token_scan(rep):
    from .c16 import strip_comments
    for sub in ("core", "cpu"):
        for root, _, files in os.walk(os.path.join(common.LIB, sub)):
            for f in sorted(files):
                if not f.endswith(".hpp"):
                    continue
                p = os.path.join(root, f)
                rel = common.repo_rel(p)
                src = strip_comments(open(p, errors="replace").read())
                hit = None
                for ln, line in enumerate(src.split("\n"), 1):
                    if re.search(r"\bnew\b(?!\s*\()", line) and not re.search(r"operator\s+new", line):
                        hit = (ln, "new expression")
                    elif re.search(r"(?<!=\s)\bdelete\b", line) and not re.search(r"=\s*delete", line):
                        hit = (ln, "delete expression")
                    elif re.search(r"\b(malloc|calloc|realloc|free)\s*\(", line):
                        hit = (ln, "C allocation function")
                    if hit:
                        break
                if not hit:
                    # pointer-typed members inside owning_data_t
                    for m in re.finditer(r"struct\s+owning_data_t\s*\{", src):
                        i = m.end()
                        depth = 1
                        while i < len(src) and depth:
                            depth += {"{": 1, "}": -1}.get(src[i], 0)
                            i += 1
                        body = src[m.end():i]
                        # member declarations at depth 0 of the struct body
                        d = 0
                        cur = ""
                        for ch in body:
                            if ch == "{":
                                d += 1
                            elif ch == "}":
                                d -= 1
                            elif d == 0:
                                cur += ch
                                if ch == ";":
                                    decl = " ".join(cur.split())
                                    if re.search(r"\*\s*m_\w+\s*;$", decl) and "(" not in decl:
                                        hit = (src.count("\n", 0, m.start()) + 1, "raw pointer member `%s`" % decl[-60:])
                                    cur = ""
                if hit:
                    # not a defect in itself (unique_ptr<T[]>(new T[n]) behaves like make_unique): the ownership rules below only
                    # vouch for storage held by std::unique_ptr, so this asks for re-confirmation (exit 2) instead of accusing
                    rep.undecided("C12 %s:%d: ownership outside std::unique_ptr (%s); the copy/assign/convert rules of this check only cover unique_ptr-held storage - re-confirm by reading" % (rel, hit[0], hit[1]))
                else:
                    rep.ok("C12.a", rel)


def strip_guard(a):
    """operator new[]'s overflow guard and the checked multiplication it is built from: select(overflow, -1, x) -> x,
    extractvalue(umul.with.overflow(p, q), 0) -> p * q (at the root of the term only: arithmetic around it stays)"""
    if a[0] == 'sel' and a[2] == ('ci', (1 << 64) - 1, 64):
        a = a[3]
    if a[0] == 'extractvalue' and a[1][0] in ('fn', 'call') and (a[1][1] or "").startswith("llvm.umul.with.overflow") and a[2] == 0:
        a = ('op', 'mul', 'i64', a[1][3], a[1][4])
    return a


def count_of(a, stride):
    """the element count c of a byte count that IS c * stride (the whole term, not a part of it), else None"""
    a = strip_guard(a)
    if stride == 1:
        return a
    if a[0] == 'op' and a[1] == 'mul':
        if a[4] == ('ci', stride, 64):
            return a[3]
        if a[3] == ('ci', stride, 64):
            return a[4]
    if a[0] == 'op' and a[1] == 'shl' and a[4][0] == 'ci' and (1 << a[4][1]) == stride:
        return a[3]
    if a[0] == 'ci' and a[1] % stride == 0:
        return ('ci', a[1] // stride, 64)
    return None


def target_is_fresh(s, st, new):
    """the store goes through this->m_ptr: it is the fresh buffer if the last value stored to this->m_ptr on this path is that buffer"""
    last = None
    for x in s.stores:
        if x.base == ('arg', 0) and x.off == 8 and x.seq < st.seq:
            last = x
    if last is None:
        return False
    v = ir.strip_casts(ir.ungate(last.val), ("ptrtoint", "bitcast"))
    return v[:2] == ('ptr', ('ret', new.n)) and (last.cond == ir.TRUE or all(l in ir.common_lits(st.cond) for l in ir.common_lits(last.cond)))


def check_array(rep, tier):
    hs = []
    for T, M in (("float", 3), ("double", 1)) + ((("float", 1), ("double", 4)) if tier == "thorough" else ()):
        hs += [h_copy(T, M), h_assign(T, M)]
    harness.build(hs, "c12")
    for h in hs:
        T, M, kind = h.meta["T"], h.meta["M"], h.meta["kind"]
        stride = M * (4 if T == "float" else 8)
        inst = "array<%s,%d> %s" % (T, M, kind)
        if h.error:
            loc, msg = harness.first_error(h)
            rep.fail("C12.b", inst, loc, "does not compile: " + msg)
            continue
        s = ir.Sym(h.func, forward_args=True)
        if s.unknown:
            raise AnalysisBroken("C12 %s: unmodelled instruction %s at %s" % (inst, s.unknown[0]["op"], ir.where(s.unknown[0])))
        def src_size(t):
            """is t the source's m_size - literally, or in every case of a select that special-cases e.g. m_size == 0"""
            if t is None:
                return False
            t = ir.strip_casts(t)
            is_sz = lambda x: x[0] == 'ld' and x[1] == ('arg', 1) and x[2] == 0
            if is_sz(t):
                return True
            cases = ir.poly_cases(t, 'int', width=64)
            if not cases:
                return False
            for sub, pl in cases:
                szs = [a for mon in pl.t for a in mon if isinstance(a, tuple) and is_sz(a)] + [a for a in sub if is_sz(a)]
                if not szs:
                    return False
                want = ir.to_poly(sub[szs[0]], 'int', width=64) if szs[0] in sub else ir.Poly.atom(szs[0], 1 << 64)
                if pl != want:
                    return False
            return True
        news = [c for c in s.calls if c.name == "_Znam"]
        cps = [st for st in s.stores if isinstance(st.val, tuple) and st.val[0] == 'blk']
        why = None
        if not news:
            why = "no buffer allocation, expected a fresh buffer"
        elif len(news) > 1 and ir.merge_calls(news, limit=10, exhaustive=False) is None:
            rep.undecided("C12.b %s: %d buffer allocations whose conditions are not recognisably alternatives of each other; not decided" % (inst, len(news)))
            continue
        else:
            # one allocation, or alternatives (a plain and a value-initialising one, say): each must have the source's element count
            for nw in news:
                cnt = count_of(nw.args[0], stride)
                if not src_size(cnt):
                    why = "fresh buffer holds %s elements, expected source.m_size" % (ir.show(cnt)[:80] if cnt else ir.show(nw.args[0])[:80])
        fresh = {('ret', nw.n) for nw in news}
        if why is None:
            if not cps:
                why = "no block copy from the source's buffer"
            for st in cps:
                srcp = st.val[1]
                n = st.size if isinstance(st.size, tuple) else ('ci', st.size, 64)
                ncnt = count_of(n, stride)
                via_member = st.base[0] == 'mem' and st.base[1][0] == 'ld' and st.base[1][1] == ('arg', 0) and st.base[1][2] == 8
                lits = ir.common_lits(st.cond)
                if st.base in fresh or (via_member and kind == "copy-assign" and ir.restrict(st.cond, news[0].cond, True) != ir.FALSE and
                                                      any(l in ir.common_lits(news[0].cond) or True for l in [0]) and target_is_fresh(s, st, news[0])):
                    pass
                elif via_member:
                    # copying into the buffer the target already owns is only sound if that buffer exists and has the right size
                    has_null_guard = any(l[0] == 'not' and l[1][0] == 'cmp' and l[1][1] == 'eq' and ('ptr', ('null',), 0) in (l[1][2], l[1][3]) and
                                         any(x[0] == 'ld' and x[1] == ('arg', 0) and x[2] == 8 for x in (l[1][2], l[1][3])) for l in lits)
                    has_size_guard = any((l[0] == 'cmp' and l[1] == 'eq') and any(x[0] == 'ld' and x[1] == ('arg', 0) and x[2] == 0 for x in (l[2], l[3])) and
                                         any(x[0] == 'ld' and x[1] == ('arg', 1) and x[2] == 0 for x in (l[2], l[3])) for l in lits)
                    if not (has_null_guard and has_size_guard):
                        why = "the source is copied into the buffer the target already holds without checking that this buffer exists and has source.m_size elements (a moved-from or differently sized target is corrupted)"
                else:
                    why = "the copy targets %s, neither the fresh buffer nor the target's own buffer" % ir.show(st.base)[:60]
                if why is None and st.off != 0:
                    why = "the copy does not start at the beginning of the buffer"
                if why is None and not (srcp[0] == 'ptr' and srcp[1][0] == 'mem' and srcp[1][1][0] == 'ld' and srcp[1][1][1] == ('arg', 1) and srcp[1][1][2] == 8 and srcp[2] == 0):
                    why = "the copy reads from %s, expected the source's buffer" % ir.show(srcp)[:80]
                if why is None and not src_size(ncnt) and ncnt is not None:
                    # on a path that has established target.m_size == source.m_size the two are interchangeable
                    eqs = [l for l in lits if l[0] == 'cmp' and l[1] == 'eq' and {(x[1], x[2]) for x in (l[2], l[3]) if x[0] == 'ld'} == {(('arg', 0), 0), (('arg', 1), 0)}]
                    if eqs:
                        from .hilbert_curve import subst
                        tgt, srcm = (eqs[0][2], eqs[0][3]) if eqs[0][2][1] == ('arg', 0) else (eqs[0][3], eqs[0][2])
                        ncnt = subst(ncnt, {tgt: srcm})
                if why is None and not src_size(ncnt):
                    why = "the copy transfers %s bytes, expected source.m_size * %d" % (ir.show(n)[:80], stride)
                if why:
                    break
        if why is None:
            fin = {}
            for st in s.stores:
                if st.base == ('arg', 0) and isinstance(st.off, int):
                    fin[st.off] = st
            if 0 not in fin or not src_size(ir.ungate(fin[0].val)):
                why = "m_size of the target is %s afterwards, expected source.m_size" % (ir.show(fin[0].val)[:60] if 0 in fin else "left unchanged")
            else:
                def leaves(t):
                    t = ir.strip_casts(ir.ungate(t), ("ptrtoint", "bitcast"))
                    return leaves(t[2]) + leaves(t[3]) if t[0] == 'sel' else [t]
                if 8 not in fin or not all(l[:2] in [('ptr', f_) for f_ in fresh] for l in leaves(fin[8].val)):
                    why = "m_ptr of the target is %s afterwards, expected the fresh buffer" % (ir.show(fin[8].val)[:60] if 8 in fin else "left unchanged")
        if why:
            rep.fail("C12.b", inst, FILE, why)
        else:
            rep.ok("C12.b", inst, sample={"operation": inst, "allocation": ir.show(news[0].args[0])[:80]})
        if kind != "copy-assign":
            continue
        # C12.d
        r = s.retval()
        rr = [ir.strip_casts(ir.ungate(v), ("ptrtoint",)) for _, v in s.ret_cond]
        if all(x == ('ptr', ('arg', 0), 0) for x in rr) and rr:
            rep.ok("C12.d", inst)
        else:
            rep.fail("C12.d", inst, FILE, "operator= returns %s, expected *this" % (ir.show(rr[0])[:60] if rr else "nothing"))
        # C12.c
        neq = [('cmp', 'ne', ('ptr', ('arg', 0), 0), ('ptr', ('arg', 1), 0)), ('cmp', 'ne', ('ptr', ('arg', 1), 0), ('ptr', ('arg', 0), 0))]
        eq = [('cmp', 'eq', ('ptr', ('arg', 0), 0), ('ptr', ('arg', 1), 0)), ('cmp', 'eq', ('ptr', ('arg', 1), 0), ('ptr', ('arg', 0), 0))]

        def guarded(cond):
            lits = ir.common_lits(cond)
            return any(l in lits for l in neq) or any(ir.mk_not(l) in lits for l in eq)
        muts = [(st.seq, "store to member at +%s" % st.off, st.cond, st.inst) for st in s.stores if st.base == ('arg', 0)]
        muts += [(c.seq, "release of the old buffer", c.cond, c.inst) for c in s.calls if c.name in ("_ZdaPv", "_ZdlPv")]
        reads = [(q, off) for (q, base, off, size, cond) in s.arg_loads if base == ('arg', 1)]
        reads += [(st.seq, "buffer") for st in cps]
        last_read = max([q for q, _ in reads] or [0])
        bad = [m for m in muts if not guarded(m[2]) and m[0] < last_read]
        if bad:
            rep.fail("C12.c", inst, ir.where(bad[0][3]), "%s happens before the source is read for the last time and is not guarded by this != &other: self-assignment corrupts the field" % bad[0][1])
        else:
            rep.ok("C12.c", inst)
    return hs


def witnesses(rep):
    layers = [
        ("clamp", "covfie::backend::clamp<P>"), ("backup", "covfie::backend::backup<P>"), ("affine", "covfie::backend::affine<P>"),
        ("shuffle", "covfie::backend::shuffle<P, std::index_sequence<1, 0>>"), ("covariant_cast", "covfie::backend::covariant_cast<double, P>"),
        ("dereference", "covfie::backend::dereference<P>"), ("linear", "covfie::backend::linear<Q, covfie::vector::float2>"),
        ("nearest_neighbour", "covfie::backend::nearest_neighbour<Q, covfie::vector::float2>"),
        ("strided", "covfie::backend::strided<covfie::vector::size2, A>"), ("morton", "covfie::backend::morton<covfie::vector::size2, A>"),
        ("hilbert", "covfie::backend::hilbert<covfie::vector::size2, A>"),
    ]
    pre = "#include <verif/probe.hpp>\nusing P = verif::vprobe<float, 2, float, 2>;\nusing Q = verif::vprobe<std::size_t, 2, float, 2>;\nusing A = verif::aprobe<float, 2>;\n"
    ws = []
    for name, ty in layers:
        ws.append(Witness("trivial :: " + name, "namespace t_%s { using B = %s; static_assert(std::is_trivially_copyable_v<typename B::owning_data_t>, \"owning\"); "
                          "static_assert(std::is_copy_assignable_v<typename B::owning_data_t> && std::is_move_assignable_v<typename B::owning_data_t>, \"assignable\"); }\n" % (name, ty),
                          meta={"layer": name}))
    common.compile_witnesses(ws, c13.INCLUDES + pre, tag="c12")
    for w in ws:
        f = c13.layer_file(w.meta["layer"])
        if w.ok:
            rep.ok("C12.e", w.meta["layer"])
        else:
            rep.fail("C12.e", w.meta["layer"], f, "owning_data_t of the layer is not trivially copyable over a trivially copyable backend: it manages something itself (%s)" % w.detail[:160])


def run(rep, tier):
    token_scan(rep)
    hs = check_array(rep, tier)
    witnesses(rep)
    c01.declare(rep)
    rep.rules.pop("C01.b-ctor", None)
    c01.run_array(rep, tier)
    # layout conversion is one of the history's operations: buffer size and recorded element count must agree there too
    c05.declare(rep)
    for r in ("C05.f", "C05.a", "C05.cuda"):
        rep.rules.pop(r, None)
    c05.run_conversions(rep, "quick")
    c05.run_rvalue(rep, "quick")
    return hs


def check(tier):
    rep = Report("C12", tier, "other")
    declare(rep)
    run(rep, tier)
    rep.assumptions = ["std::unique_ptr<T[]> releases its buffer exactly once (library contract); defaulted moves transfer it",
                       "representation invariant argument: each operation preserves 'exclusively owns a buffer of exactly m_size elements or none', hence any history does",
                       "not decided: lifetimes of views chosen by user code; using a moved-from field"]
    return rep.finish(
        "Ownership is confined to one type (array::owning_data_t holding a unique_ptr); the check shows that its two hand-written copy operations deep-copy exactly (allocation size, copied byte count, resulting members, "
        "self-assignment ordering, returned reference) from optimised IR, that no other code allocates or frees, and - by compile witnesses - that every wrapper layer's owning type is trivially copyable over a trivially copyable "
        "backend, i.e. adds no ownership of its own. An invariant preserved by every operation holds after every history.",
        "bin/vcheck C12 (token scan; clang++ -O2 -emit-llvm | build/irdump | engine/ir.py; g++ -fsyntax-only witnesses)",
        ["clang 14 -O2 IR faithful to source", "std::unique_ptr contract", "g++ type traits"])
