"""C01  Storage-order layers behave as an N-dimensional array.

Reduction: write/read-back and non-aliasing hold iff the coordinate -> flat-index map is injective on the box, and
accesses stay inside the storage iff its range lies below the allocated length.  Static analysis decides the
code-shaped premises; the arithmetic lemma connecting them is stated, not machine-checked.
  C01.a  the index map is the published one: row-major polynomial, Morton bit interleave (rules C14.a/b/c), at the
         storage index width (C01.e)
  C01.b  allocation: the element count handed to the storage backend and the size of the buffer allocated by each
         converting constructor have the required form over ALL extents: product (row-major),
         ipow(round_pow2(max extent), N) (Morton, Hilbert)                       [rules C05.c, via relayout.py]
  C01.c  the extents a view indexes with are the extents the owning object was built with (rule C17.c)
  C01.d  array backend: view.m_ptr/m_size are the owning object's buffer and count; at(i) is exactly &m_ptr[i]
         with element stride sizeof(vector); owning_data_t(n) allocates n elements and records n
  Lemma (pen and paper): mixed-radix positional notation is a bijection from the box onto [0, prod s); bit
  interleaving is a bit permutation, hence injective, and maps [0,P)^N into [0,P^N) for P a power of two >= every extent.
  Not decided: Hilbert's map (data-dependent loop) beyond side-length/allocation agreement; exactness of round_pow2/ipow (C18).
"""
from .. import harness, ir
from ..common import Report, AnalysisBroken
from ..harness import Harness
from . import c05, c14, c14_hilbert, c17, relayout

FILE = "lib/core/covfie/core/backend/primitive/array.hpp"


def h_at(T, M):
    # through a view built from the owning data here: how the view stores pointer and count is its own business
    body = "  using B = array<verif::vd<%s, %d>>;\n  B::non_owning_data_t v(*static_cast<const B::owning_data_t *>(a0));\n  return reinterpret_cast<std::size_t>(&v.at(a1));\n" % (T, M)
    return Harness("arr_at_%s%d" % (T, M), [("const void *", 'owning'), ("std::size_t", 'i')], body, ret="std::size_t", meta={"T": T, "M": M, "kind": "at"})


def h_view(T, M):
    body = "  using B = array<verif::vd<%s, %d>>;\n  B::non_owning_data_t v(*static_cast<const B::owning_data_t *>(a0));\n  out[0] = v.m_size; out[1] = reinterpret_cast<std::size_t>(v.m_ptr);\n" % (T, M)
    return Harness("arr_view_%s%d" % (T, M), [("const void *", 'owning')], body, out=("std::size_t", 2), meta={"T": T, "M": M, "kind": "view"})


def h_alloc(T, M, I=None):
    body = "  using B = array<verif::vd<%s, %d>%s>;\n  new (a1) B::owning_data_t(a0);\n" % (T, M, ", std::%s" % I if I else "")
    return Harness("arr_alloc_%s%d%s" % (T, M, "_" + I if I else ""), [("std::size_t", 'n'), ("void *", 'obj')], body, meta={"T": T, "M": M, "kind": "alloc"})


def h_cfg(T, M, I):
    body = "  using B = array<verif::vd<%s, %d>, std::%s>;\n  const B::owning_data_t & o = *static_cast<const B::owning_data_t *>(a0);\n  out[0] = o.get_configuration()[0]; out[1] = o.get_configuration()[0];\n" % (T, M, I)
    return Harness("arr_cfg_%s%d_%s" % (T, M, I), [("const void *", 'owning')], body, out=("std::size_t", 2), meta={"T": T, "M": M, "kind": "cfg"})


def h_extent_ctor(N, T, M, I="std::size_t"):
    args = [("std::size_t", ('s', k)) for k in range(N)]
    body = """  using B = strided<verif::vd<%s, %d>, array<verif::vd<%s, %d>>>;
  B::owning_data_t o(B::configuration_t{%s});
  out[0] = o.get_backend().get_configuration()[0];
  %s
  out[%d] = reinterpret_cast<std::size_t>(o.get_backend().m_ptr.get());
""" % (I, N, T, M, ", ".join("a%d" % k for k in range(N)), " ".join("out[%d] = o.get_configuration()[%d];" % (1 + k, k) for k in range(N)), N + 1)
    return Harness("strided_extent_ctor_%d_%s%d" % (N, T, M), args, body, out=("std::size_t", N + 2), meta={"N": N, "T": T, "M": M, "kind": "extent-ctor"})


def run_extent_ctor(rep, tier):
    hs = [h_extent_ctor(N, T, M) for (N, T, M) in ((1, "float", 1), (2, "float", 3), (3, "double", 2)) + (((4, "float", 2),) if tier == "thorough" else ())]
    harness.build(hs, "c01ext")
    for h in hs:
        N, T, M = h.meta["N"], h.meta["T"], h.meta["M"]
        inst = "strided<%d,%s^%d>(extents)" % (N, T, M)
        if h.error:
            loc, msg = harness.first_error(h)
            rep.fail("C01.b-ctor", inst, loc, "does not compile: " + msg)
            continue
        s = ir.Sym(h.func)
        outs = {k: ir.ungate(v) for k, v in s.outputs(h.out_index).items()}
        sizes = [('arg', k) for k in range(N)]
        why = None
        for k in range(N):
            if outs.get(8 * (1 + k)) != sizes[k]:
                why = "extent %d reported is %s" % (k, ir.show(outs.get(8 * (1 + k)))[:60])
        if why is None:
            ok, w2 = relayout.count_form(outs.get(0, ('undef',)), "strided", N, sizes)
            if not ok:
                why = "storage " + w2
        if why is None:
            news = [c for c in s.calls if c.name == "_Znam"]
            stride = M * (4 if T == "float" else 8)
            cnt = None
            if len(news) == 1:
                from .c12 import count_of
                cnt = count_of(news[0].args[0], stride)          # the whole byte count, not a part of it
            if cnt is None:
                why = "no single buffer allocation of (element count) x %d bytes" % stride
            else:
                ok, w2 = relayout.count_form(cnt, "strided", N, sizes)
                if not ok:
                    why = "allocated buffer: " + w2
        if why:
            rep.fail("C01.b-ctor", inst, "lib/core/covfie/core/backend/transformer/strided.hpp", why)
        else:
            rep.ok("C01.b-ctor", inst)
    return hs


def declare(rep):
    rep.rule("C01.b-ctor", "strided field built from an extent vector: storage and buffer hold exactly the product of all extents; extents reported unchanged", floor=3)
    rep.rule("C01.d", "array backend: view mirrors the owning buffer/count; at(i) == &m_ptr[i] with stride sizeof(vector); owning_data_t(n) allocates and records n elements", floor=6)


def run_array(rep, tier):
    hs = []
    for T, M in (("float", 1), ("float", 3), ("double", 2)) + ((("double", 4), ("float", 2)) if tier == "thorough" else ()):
        hs += [h_at(T, M), h_alloc(T, M)]
    # narrow index types: the element count must still be kept (and reported) at full width
    hs += [h_alloc("float", 1, "uint16_t"), h_alloc("double", 2, "uint32_t"), h_cfg("float", 1, "uint16_t"), h_cfg("float", 3, "uint8_t")]
    harness.build(hs, "c01arr")
    for h in hs:
        T, M, kind = h.meta["T"], h.meta["M"], h.meta["kind"]
        stride = M * (4 if T == "float" else 8)
        inst = "array<%s,%d> %s" % (T, M, kind)
        if h.error:
            loc, msg = harness.first_error(h)
            rep.fail("C01.d", inst, loc, "does not compile: " + msg)
            continue
        s = ir.Sym(h.func)
        if s.unknown:
            raise AnalysisBroken("C01 %s: unmodelled instruction %s" % (inst, s.unknown[0]["op"]))
        why = None
        if kind == "at":
            r = s.retval()
            p = r[3] if r and r[0] == 'cast' and r[1] == 'ptrtoint' else r
            exp_base = ('mem', ('ld', ('arg', 0), 8, 8, p[1][1][4] if p and p[0] == 'ptr' and p[1][0] == 'mem' else 'x', 0))
            ok = p and p[0] == 'ptr' and p[1][0] == 'mem' and p[1][1][0] == 'ld' and p[1][1][1] == ('arg', 0) and p[1][1][2] == 8
            if ok:
                from .io_array import dyn_parts
                c, terms = dyn_parts(p[2])
                ok = c == 0 and len(terms) == 1 and terms[0][0] == stride and terms[0][1] == ('arg', 1)
            if not ok:
                why = "at(i) yields %s, expected m_ptr + i*%d" % (ir.show(r)[:120] if r else "nothing", stride)
            if s.calls:
                why = "at(i) makes calls: %s" % [c.dname for c in s.calls][:2]
        elif kind == "view":
            outs = {k: ir.ungate(v) for k, v in s.outputs(h.out_index).items()}
            a, b = outs.get(0), outs.get(8)
            if not (a and a[0] == 'ld' and a[1] == ('arg', 0) and a[2] == 0 and a[3] == 8):
                why = "view.m_size is %s, expected the owning object's m_size" % (ir.show(a) if a else "unset")
            bb = ir.strip_casts(b, ("ptrtoint",)) if b else None
            if why is None and not (bb and ((bb[0] == 'ld' and bb[1] == ('arg', 0) and bb[2] == 8) or (bb[0] == 'ptr' and bb[1][0] == 'mem' and bb[1][1][1] == ('arg', 0) and bb[1][1][2] == 8 and bb[2] == 0))):
                why = "view.m_ptr is %s, expected the owning object's buffer" % (ir.show(b)[:80] if b else "unset")
        elif kind == "cfg":
            outs = {k: ir.ungate(v) for k, v in s.outputs(h.out_index).items()}
            for k, nm in ((0, "get_configuration()[0]"),):
                a = outs.get(k)
                if not (a and a[0] == 'ld' and a[1] == ('arg', 0) and a[2] == 0 and a[3] == 8):
                    why = "%s is %s, expected the full 64-bit element count of the owning object" % (nm, ir.show(a)[:80] if a else "unset")
        else:
            news = [c for c in s.calls if c.name == "_Znam"]
            st = {x.off: x.val for x in s.stores if x.base == ('arg', 1) and isinstance(x.off, int)}
            if len(news) != 1:
                why = "owning_data_t(n) performs %d array allocations" % len(news)
            else:
                a = news[0].args[0]
                from .c12 import count_of
                cnt = count_of(a, stride)
                if cnt != ('arg', 0):
                    why = "allocates %s bytes, expected n*%d" % (ir.show(a)[:100], stride)
                elif ir.ungate(st.get(0, ('undef',))) != ('arg', 0):
                    why = "m_size is %s, expected n (kept at 64 bits)" % ir.show(st.get(0))[:60]
        if why:
            rep.fail("C01.d", inst, FILE, why)
        else:
            rep.ok("C01.d", inst)
    return hs


def run(rep, tier):
    c14.declare(rep)
    c14_hilbert.declare(rep)
    c14.run(rep, tier)
    c14_hilbert.run(rep, tier)
    c05.declare(rep)
    rep.rules.pop("C05.a", None)
    rep.rules.pop("C05.cuda", None)
    rep.rules.pop("C05.f", None)
    rep.rules.pop("C05.g", None)
    c05.run_conversions(rep, tier)
    c17.declare(rep)
    c17.run(rep, tier)
    run_extent_ctor(rep, tier)
    return run_array(rep, tier)


def check(tier):
    rep = Report("C01", tier, "other")
    declare(rep)
    run(rep, tier)
    rep.assumptions = ["arithmetic lemma (stated, not machine-checked): mixed-radix notation is a bijection from the box onto [0, prod s); bit interleaving is a bit permutation and maps [0,P)^N into [0,P^N)",
                       "round_pow2 returns a power of two >= its argument and ipow(b, e) = b^e (C18: not decided statically)",
                       "Hilbert: bijectivity and range of the walk are not decided; only its side length, allocation and extents"]
    return rep.finish(
        "Structural premises of 'behaves as an N-dimensional array', decided from optimised IR: the coordinate->index maps are the published ones at 64-bit width (C14 rules), every allocation site sizes the storage with the "
        "required expression over all extents (relayout rules), views index with the extents the field was built with (C17 rules), and the array backend's view/at/allocation are exact (D-route). "
        "Together with the stated injectivity lemma these give read-back, non-aliasing and in-bounds access for every extent vector.",
        "bin/vcheck C01 (clang++ -O2 -emit-llvm | build/irdump | engine/rules/c14.py, relayout.py, c17.py, c01.py)",
        ["clang 14 -O2 IR faithful to source", "injectivity lemma (pen and paper)", "round_pow2/ipow contracts"])
