"""C14.d  Hilbert: the side length of the walk agrees with the allocation.

The walk is a data-dependent loop, so nothing is decided about its bijectivity
or adjacency.  What is decided (dependence analysis over the cyclic CFG +
D-ord on the loop-free prefix): the extents influence the computed position
only through one value n = round_pow2(max(extents)) - the same expression the
allocation uses (rule C01.b) - and the position depends on n and on both
coordinate components.  round_pow2/ipow are kept opaque by declaring (not
defining) their explicit specialisations in the harness unit.
"""
from .. import harness, ir
from . import hilbert_curve
from ..common import Report, AnalysisBroken
from ..harness import Harness

FILE = "lib/core/covfie/core/backend/transformer/hilbert.hpp"

OPAQUE = harness.INCLUDES + """
namespace covfie::utility {
// declared, never defined: the calls stay calls.  The exception specification must match the primary template's, whatever it is:
// it is taken from another instantiation.
template <> std::size_t round_pow2<std::size_t, true>(std::size_t) noexcept(noexcept(round_pow2<unsigned char, true>(static_cast<unsigned char>(1))));
template <> std::size_t ipow<std::size_t, true>(std::size_t, std::size_t) noexcept(noexcept(ipow<unsigned char, true>(static_cast<unsigned char>(1), static_cast<unsigned char>(1))));
}
"""
RP2 = "_ZN6covfie7utility10round_pow2"


def make_static(s):
    ct = harness.STYPES[s][0]
    args = [(ct, ('c', 0)), (ct, ('c', 1)), ("std::size_t", ('s', 0)), ("std::size_t", ('s', 1))]
    body = """
  using B = hilbert<verif::vd<%s, 2>, verif::aprobe<float, 1>>;
  return B::calculate_index({a0, a1}, {a2, a3});
""" % ct
    return Harness("hilbertidx_%s" % s, args, body, ret="std::size_t", meta={"S": s, "kind": "static"})


def make_view(s):
    ct = harness.STYPES[s][0]
    args = [(ct, ('c', 0)), (ct, ('c', 1)), ("std::size_t", ('s', 0)), ("std::size_t", ('s', 1)), ("std::uint64_t", 'tag')]
    body = """
  using P = verif::aprobe<float, 1>;
  using B = hilbert<verif::vd<%s, 2>, P>;
  B::owning_data_t o(B::configuration_t{a2, a3}, P::owning_data_t(P::configuration_t{a4}));
  B::non_owning_data_t v(o);
  auto & r = v.at({a0, a1});
  return reinterpret_cast<std::size_t>(&r);
""" % ct
    return Harness("hilbertat_%s" % s, args, body, ret="std::size_t", meta={"S": s, "kind": "view"})


def make_loaded(s):
    """the view of a field that came out of read_binary: the walk's side must derive from the extents that were READ"""
    ct = harness.STYPES[s][0]
    args = [(ct, ('c', 0)), (ct, ('c', 1)), ("std::istream *", 'is')]
    body = """
  using P = verif::aprobe<float, 1>;
  using B = hilbert<verif::vd<%s, 2>, P>;
  B::owning_data_t o = B::owning_data_t::read_binary(*a2);
  B::non_owning_data_t v(o);
  auto & r = v.at({a0, a1});
  return reinterpret_cast<std::size_t>(&r);
""" % ct
    return Harness("hilbertld_%s" % s, args, body, ret="std::size_t", meta={"S": s, "kind": "loaded"})


def run_loaded(rep, tier):
    """C14.d-load: lookups through a reloaded Hilbert field walk a square whose side is round_pow2(max of the extents read)"""
    hs = [make_loaded("size_t")]
    harness.build(hs, "c14hl", includes=OPAQUE)
    for h in hs:
        inst = "hilbert<%s>::at after read_binary" % h.meta["S"]
        if h.error:
            loc, msg = harness.first_error(h)
            rep.fail("C14.d-load", inst, loc, "does not compile: " + msg)
            continue
        sl = ir.Sym(ir.Func(h.func), cut_loops=True, epochs=True)
        sk = sl.opaque_calls("_ZN5verif4sink")
        rc = [c for c in sl.calls if c.name and c.name.startswith(RP2)]
        coords = (('arg', 0), ('arg', 1))
        if len(sk) != 1:
            raise AnalysisBroken("C14.d-load %s: %d storage queries" % (inst, len(sk)))
        pos = sk[0].args[1]
        if rc:
            ext = sorted({a for c in rc for a in ir.atoms(c.args[0]) if a[0] == 'wr'}, key=repr)
            ok = len(rc) == 1 and len(ext) == 2 and relayout_is_max(rc[0].args[0], ext) and any(a == ('call', rc[0].name, rc[0].n) for a in ir.atoms(pos))
            if ok:
                rep.ok("C14.d-load", inst)
            else:
                rep.fail("C14.d-load", inst, FILE, "after loading, the walk's side is round_pow2(%s): not the larger of the two extents read from the stream, or not used by the lookup" % ir.show(rc[0].args[0])[:80])
            continue
        if not sl.loops and not (hilbert_curve.leaves(pos) & set(coords)):
            rep.fail("C14.d-load", inst, FILE, "after loading, the curve position is %s for every coordinate: the side of the walk is not derived from the extents that were read (a member the loading route does not set)" % ir.show(ir.ungate(pos))[:60])
            continue
        ext = sorted({a for i in sl.iv.values() for a in ir.atoms(i["init"]) if a[0] == 'wr'}, key=repr)
        if len(ext) != 2:
            rep.undecided("C14.d-load %s: the walk after loading neither calls round_pow2 nor starts from two words read from the stream; not decided" % inst)
            continue
        px, virt, bad = hilbert_curve.virtual_side(sl, tuple(ext), coords)
        if bad:
            rep.fail("C14.d-load", inst, FILE, "after loading: " + bad)
        elif px is None:
            rep.undecided("C14.d-load %s: side of the walk after loading not identified" % inst)
        else:
            rep.ok("C14.d-load", inst)


def relayout_is_max(t, ext):
    from . import relayout
    ok, _ = relayout.is_max_of(t, ext)
    return bool(ok)


def declare(rep):
    rep.rule("C14.d-load", "a Hilbert field that came out of read_binary walks a square of side round_pow2(max of the extents read)", floor=1)
    rep.rule("C14.d-compile", "Hilbert index / lookup harness compiles", floor=2)
    rep.rule("C14.d-max", "the one side length is round_pow2 of max(extent0, extent1) (D-ord over both orderings)", floor=2)
    rep.rule("C14.d-curve", "the walk is a Hilbert curve for every k: quadrant digits and symmetries read off the loop body satisfy the induction (bijection, origin, corner fixpoint, facing exits/entries); levels run n/2..1", floor=2)
    rep.rule("C14.d-dep", "the position depends on the extents only through that side length, and on it and both coordinates", floor=2)


def run(rep, tier):
    Ss = ("size_t",) if tier == "quick" else ("size_t", "unsigned", "int")
    hs = [make_static(s) for s in Ss] + [make_view(s) for s in Ss]
    harness.build(hs, "c14h", includes=OPAQUE)
    for h in hs:
        inst = "hilbert<%s>::%s" % (h.meta["S"], "calculate_index" if h.meta["kind"] == "static" else "at")
        if h.error:
            loc, msg = harness.first_error(h)
            rep.fail("C14.d-compile", inst, loc, "does not compile: " + msg)
            continue
        rep.ok("C14.d-compile", inst)
        fn = ir.Func(h.func)
        s0, s1 = h.role_index(('s', 0)), h.role_index(('s', 1))
        pre = ir.Sym(fn, prefix_only=True)
        rcalls = [c for c in pre.calls if c.name and c.name.startswith(RP2)]
        t = ir.Taint(fn, {h.role_index(('c', 0)): 'c0', h.role_index(('c', 1)): 'c1', s0: 'raw', s1: 'raw'},
                     call_label=lambda i: 'n' if (i.get("callee") or "").startswith(RP2) else None)
        all_r = t.calls(RP2)
        if len(all_r) == 0:
            # the side is not obtained from utility::round_pow2 (a bit trick, a value cached by a constructor): decide its value
            sl = ir.Sym(fn, cut_loops=True)
            if sl.unknown:
                raise AnalysisBroken("C14.d %s: unmodelled instruction %s" % (inst, sl.unknown[0]["op"]))
            ext = (('arg', s0), ('arg', s1))
            coords = (('arg', h.role_index(('c', 0))), ('arg', h.role_index(('c', 1))))
            if not sl.loops:
                # the walk was folded away altogether: which position is queried?
                sk0 = sl.opaque_calls("_ZN5verif4sink")
                res0 = sl.retval() if h.meta["kind"] == "static" else (sk0[0].args[1] if len(sk0) == 1 else None)
                if res0 is not None and not (hilbert_curve.leaves(res0) & set(coords)):
                    rep.fail("C14.d-dep", inst, FILE, "the curve position is %s for every coordinate: the walk's side does not derive from the extents on this construction route (a constant, e.g. a member no constructor on this route sets)" % ir.show(ir.ungate(res0))[:60])
                    continue
            px, virt, bad = hilbert_curve.virtual_side(sl, ext, coords)
            if bad:
                rep.fail("C14.d-max", inst, FILE, bad)
                continue
            if px is None:
                raise AnalysisBroken("C14.d %s: no round_pow2 call and no start value of the walk that depends on the extents only; not decided" % inst)
            rep.ok("C14.d-max", inst)
            rep.ok("C14.d-dep", inst)
            if h.meta["kind"] == "static":
                resv = px.ret_cond and ir.ungate(hilbert_curve.subst(sl.retval(), px.m))
            else:
                sk = sl.opaque_calls("_ZN5verif4sink")
                if len(sk) != 1:
                    rep.fail("C14.d-curve", inst, FILE, "expected one storage query, found %d" % len(sk))
                    continue
                resv = hilbert_curve.subst(sk[0].args[1], px.m)
            hilbert_curve.EXT = ext
            try:
                bad, desc = hilbert_curve.check(px, coords[0], coords[1], virt, resv)
            finally:
                hilbert_curve.EXT = None
            if bad:
                rep.fail("C14.d-curve", inst, FILE, bad, data=desc)
            else:
                rep.ok("C14.d-curve", inst)
                rep.extra.setdefault("hilbert_induction", {})[inst] = dict(desc, side="computed without round_pow2; equals the least power of two >= the larger extent at every extent pair where it can change",
                                                                           verdict="induction closed: bijective, starts at the origin, consecutive positions edge-adjacent, for every k")
            continue
        if len(all_r) != 1 or len(rcalls) != 1:
            rep.undecided("C14.d %s: %d round_pow2 calls ahead of the walk; the rule is stated for one" % (inst, len(all_r)))
            continue
        arg = rcalls[0].args[0]
        a0, a1 = ('arg', s0), ('arg', s1)
        good = True
        for r in ir.weak_orderings(2):
            rank = {a0: r[0], a1: r[1]}
            ev = ir.OrdEval(rank, 'unsigned')
            v = ev.value(arg)
            if v is None:
                raise AnalysisBroken("C14.d %s: round_pow2 argument is not a max tree: %s" % (inst, ir.show(arg)))
            if rank[v] != max(r):
                rep.fail("C14.d-max", inst, ir.where(rcalls[0].inst), "side length is round_pow2(%s): for extents ordered %s this is not the largest extent" % (ir.show(arg, {a0: 's0', a1: 's1'}), r))
                good = False
                break
        if good:
            rep.ok("C14.d-max", inst, sample={"instance": inst, "round_pow2_argument": ir.show(arg, {a0: 's0', a1: 's1'})})
        if h.meta["kind"] == "static":
            res = t.ret_labels()
        else:
            sinks = t.calls("_ZN5verif4sink")
            if len(sinks) != 1:
                rep.fail("C14.d-dep", inst, FILE, "expected one storage query, found %d" % len(sinks))
                continue
            res = t.call_args[sinks[0]["id"]][1]
        raw_conds = [i for i, l in t.cond_labels() if 'raw' in l]
        if 'raw' in res:
            rep.fail("C14.d-dep", inst, FILE, "the curve position depends on the raw extents, not only on round_pow2(max extent)")
        elif raw_conds:
            raise AnalysisBroken("C14.d %s: a branch condition at %s depends on the raw extents; idiom not recognised" % (inst, ir.where(raw_conds[0])))
        elif not {'n', 'c0', 'c1'} <= res:
            rep.fail("C14.d-dep", inst, FILE, "the curve position depends on %s; expected the side length and both coordinates" % sorted(res))
        else:
            rep.ok("C14.d-dep", inst)
        # the curve itself
        sl = ir.Sym(fn, cut_loops=True)
        if sl.unknown:
            raise AnalysisBroken("C14.d %s: unmodelled instruction %s" % (inst, sl.unknown[0]["op"]))
        rc = [c for c in sl.calls if c.name and c.name.startswith(RP2)]
        if len(rc) != 1:
            raise AnalysisBroken("C14.d %s: %d round_pow2 calls in the loop view" % (inst, len(rc)))
        ncall = ('call', rc[0].name, rc[0].n)
        if h.meta["kind"] == "static":
            resv = sl.retval()
        else:
            sk = sl.opaque_calls("_ZN5verif4sink")
            if len(sk) != 1:
                rep.fail("C14.d-curve", inst, FILE, "expected one storage query, found %d" % len(sk))
                continue
            resv = sk[0].args[1]
        bad, desc = hilbert_curve.check(sl, ('arg', h.role_index(('c', 0))), ('arg', h.role_index(('c', 1))), ncall, resv)
        if bad:
            rep.fail("C14.d-curve", inst, FILE, bad, data=desc)
        else:
            rep.ok("C14.d-curve", inst)
            rep.extra.setdefault("hilbert_induction", {})[inst] = dict(desc, verdict="induction closed: bijective, starts at the origin, consecutive positions edge-adjacent, for every k")
    run_loaded(rep, tier)
    return hs
