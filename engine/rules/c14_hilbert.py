"""C14.d  Hilbert: the side length of the walk agrees with the allocation.

The walk is a data-dependent loop, so nothing is decided about its bijectivity
or adjacency.  What is decided (dependence analysis over the cyclic CFG +
D-ord on the loop-free prefix): the extents influence the computed position
only through one value n = round_pow2(max(extents)) - the same expression the
allocation uses (rule C01.b) - and the position depends on n and on both
coordinate components.  round_pow2/ipow are kept opaque by declaring (not
defining) their explicit specialisations in the harness unit.
"""
from .. import harness, ir
from . import hilbert_curve
from ..common import Report, AnalysisBroken
from ..harness import Harness

FILE = "lib/core/covfie/core/backend/transformer/hilbert.hpp"

OPAQUE = harness.INCLUDES + """
namespace covfie::utility {
template <> std::size_t round_pow2<std::size_t, true>(std::size_t);
template <> std::size_t ipow<std::size_t, true>(std::size_t, std::size_t);
}
"""
RP2 = "_ZN6covfie7utility10round_pow2"


def make_static(s):
    ct = harness.STYPES[s][0]
    args = [(ct, ('c', 0)), (ct, ('c', 1)), ("std::size_t", ('s', 0)), ("std::size_t", ('s', 1))]
    body = """
  using B = hilbert<verif::vd<%s, 2>, verif::aprobe<float, 1>>;
  return B::calculate_index({a0, a1}, {a2, a3});
""" % ct
    return Harness("hilbertidx_%s" % s, args, body, ret="std::size_t", meta={"S": s, "kind": "static"})


def make_view(s):
    ct = harness.STYPES[s][0]
    args = [(ct, ('c', 0)), (ct, ('c', 1)), ("std::size_t", ('s', 0)), ("std::size_t", ('s', 1)), ("std::uint64_t", 'tag')]
    body = """
  using P = verif::aprobe<float, 1>;
  using B = hilbert<verif::vd<%s, 2>, P>;
  B::owning_data_t o(B::configuration_t{a2, a3}, P::owning_data_t(P::configuration_t{a4}));
  B::non_owning_data_t v(o);
  auto & r = v.at({a0, a1});
  return reinterpret_cast<std::size_t>(&r);
""" % ct
    return Harness("hilbertat_%s" % s, args, body, ret="std::size_t", meta={"S": s, "kind": "view"})


def declare(rep):
    rep.rule("C14.d-compile", "Hilbert index / lookup harness compiles", floor=2)
    rep.rule("C14.d-max", "the one side length is round_pow2 of max(extent0, extent1) (D-ord over both orderings)", floor=2)
    rep.rule("C14.d-curve", "the walk is a Hilbert curve for every k: quadrant digits and symmetries read off the loop body satisfy the induction (bijection, origin, corner fixpoint, facing exits/entries); levels run n/2..1", floor=2)
    rep.rule("C14.d-dep", "the position depends on the extents only through that side length, and on it and both coordinates", floor=2)


def run(rep, tier):
    Ss = ("size_t",) if tier == "quick" else ("size_t", "unsigned", "int")
    hs = [make_static(s) for s in Ss] + [make_view(s) for s in Ss]
    harness.build(hs, "c14h", includes=OPAQUE)
    for h in hs:
        inst = "hilbert<%s>::%s" % (h.meta["S"], "calculate_index" if h.meta["kind"] == "static" else "at")
        if h.error:
            loc, msg = harness.first_error(h)
            rep.fail("C14.d-compile", inst, loc, "does not compile: " + msg)
            continue
        rep.ok("C14.d-compile", inst)
        fn = ir.Func(h.func)
        s0, s1 = h.role_index(('s', 0)), h.role_index(('s', 1))
        pre = ir.Sym(fn, prefix_only=True)
        rcalls = [c for c in pre.calls if c.name and c.name.startswith(RP2)]
        t = ir.Taint(fn, {h.role_index(('c', 0)): 'c0', h.role_index(('c', 1)): 'c1', s0: 'raw', s1: 'raw'},
                     call_label=lambda i: 'n' if (i.get("callee") or "").startswith(RP2) else None)
        all_r = t.calls(RP2)
        if len(all_r) != 1 or len(rcalls) != 1:
            rep.fail("C14.d-max", inst, FILE, "expected exactly one round_pow2 call ahead of the walk, found %d" % len(all_r))
            continue
        arg = rcalls[0].args[0]
        a0, a1 = ('arg', s0), ('arg', s1)
        good = True
        for r in ir.weak_orderings(2):
            rank = {a0: r[0], a1: r[1]}
            ev = ir.OrdEval(rank, 'unsigned')
            v = ev.value(arg)
            if v is None:
                raise AnalysisBroken("C14.d %s: round_pow2 argument is not a max tree: %s" % (inst, ir.show(arg)))
            if rank[v] != max(r):
                rep.fail("C14.d-max", inst, ir.where(rcalls[0].inst), "side length is round_pow2(%s): for extents ordered %s this is not the largest extent" % (ir.show(arg, {a0: 's0', a1: 's1'}), r))
                good = False
                break
        if good:
            rep.ok("C14.d-max", inst, sample={"instance": inst, "round_pow2_argument": ir.show(arg, {a0: 's0', a1: 's1'})})
        if h.meta["kind"] == "static":
            res = t.ret_labels()
        else:
            sinks = t.calls("_ZN5verif4sink")
            if len(sinks) != 1:
                rep.fail("C14.d-dep", inst, FILE, "expected one storage query, found %d" % len(sinks))
                continue
            res = t.call_args[sinks[0]["id"]][1]
        raw_conds = [i for i, l in t.cond_labels() if 'raw' in l]
        if 'raw' in res:
            rep.fail("C14.d-dep", inst, FILE, "the curve position depends on the raw extents, not only on round_pow2(max extent)")
        elif raw_conds:
            raise AnalysisBroken("C14.d %s: a branch condition at %s depends on the raw extents; idiom not recognised" % (inst, ir.where(raw_conds[0])))
        elif not {'n', 'c0', 'c1'} <= res:
            rep.fail("C14.d-dep", inst, FILE, "the curve position depends on %s; expected the side length and both coordinates" % sorted(res))
        else:
            rep.ok("C14.d-dep", inst)
        # the curve itself
        sl = ir.Sym(fn, cut_loops=True)
        if sl.unknown:
            raise AnalysisBroken("C14.d %s: unmodelled instruction %s" % (inst, sl.unknown[0]["op"]))
        rc = [c for c in sl.calls if c.name and c.name.startswith(RP2)]
        if len(rc) != 1:
            raise AnalysisBroken("C14.d %s: %d round_pow2 calls in the loop view" % (inst, len(rc)))
        ncall = ('call', rc[0].name, rc[0].n)
        if h.meta["kind"] == "static":
            resv = sl.retval()
        else:
            sk = sl.opaque_calls("_ZN5verif4sink")
            if len(sk) != 1:
                rep.fail("C14.d-curve", inst, FILE, "expected one storage query, found %d" % len(sk))
                continue
            resv = sk[0].args[1]
        bad, desc = hilbert_curve.check(sl, ('arg', h.role_index(('c', 0))), ('arg', h.role_index(('c', 1))), ncall, resv)
        if bad:
            rep.fail("C14.d-curve", inst, FILE, bad, data=desc)
        else:
            rep.ok("C14.d-curve", inst)
            rep.extra.setdefault("hilbert_induction", {})[inst] = dict(desc, verdict="induction closed: bijective, starts at the origin, consecutive positions edge-adjacent, for every k")
    return hs
