"""C14.d-curve  The Hilbert walk is a Hilbert curve: a proof by induction over the levels.

The walk is one loop over levels s = n/2, n/4, .., 1.  In each round it looks at one bit of each coordinate
(bx, by), adds q(bx,by) * s^2 to the position and applies a symmetry T(bx,by) of the square to the coordinates.  This
module reads q and T off the loop body (case analysis of the gated-SSA step terms over the four quadrants, D-poly for
each case) and the level schedule off the loop-carried level value, and then decides the clause of C14

    "visits every cell of a 2^k x 2^k square exactly once, starting at the origin, with consecutive positions in
     edge-adjacent cells"

for EVERY k by induction, in a finite abstract domain: a sub-curve is abstracted by the corners at which it enters
and leaves its square.

  H_0 = 0,   H_{j+1}(x, y) = q(bx,by) * 4^j + H_j(T(bx,by)(x_low, y_low))

  (a) bijection:  q is a bijection {0,1}^2 -> {0,1,2,3} and every T is a symmetry of the square (then by induction).
  (b) entry/exit: with E = (0,0) and X = q^-1(3), the quadrant visited first re-enters at E and the quadrant visited
      last leaves at X (corner fixpoint), so E and X are the entry and exit corners at every level.
  (c) adjacency:  quadrants visited consecutively share an edge, and the exit cell of one and the entry cell of the
      next face each other across that edge (inner corners agree along the edge and are at the facing sides).

The level schedule is decided in the exponent domain (n = 2^k, level carrier = 2^m, all 0 <= m <= k < 64): first
level >= n/2, each level half the previous, the loop runs until level 1 inclusive.  Extra leading levels above n/2
only compose the curve with T(0,0)^e, which fixes the origin: harmless.  A first level that depends on the
coordinates skips leading levels for some cells only; that breaks adjacency unless T(0,0) is the identity (the exit
of the smaller square's curve and the entry of the next quadrant of the bigger one no longer face each other).

Nothing is executed; the code is the optimised IR of the real function.  A loop of another shape (table driven,
several loops, other loop-carried values) is answered with exit 2.
"""
from .. import ir
from ..common import AnalysisBroken

M64 = (1 << 64) - 1


def const_val(t):
    return t[1] if isinstance(t, tuple) and t[0] == 'ci' else None


def const_fold(t, memo=None):
    """fold integer operations on constants (after a case has fixed the quadrant bits)"""
    if memo is None:
        memo = {}
    if not isinstance(t, tuple) or not t or not isinstance(t[0], str):
        return t
    if t in memo:
        return memo[t]
    h = t[0]
    r = t
    if h == 'op':
        a, b = const_fold(t[3], memo), const_fold(t[4], memo)
        r = (h, t[1], t[2], a, b)
        if a[0] == 'ci' and b[0] == 'ci':
            w = a[2]
            m = (1 << w) - 1
            x, y = a[1] & m, b[1] & m
            v = {'add': x + y, 'sub': x - y, 'mul': x * y, 'and': x & y, 'or': x | y, 'xor': x ^ y,
                 'shl': x << y if y < w else 0, 'lshr': x >> y if y < w else 0, 'udiv': x // y if y else None}.get(t[1])
            if v is not None:
                r = ('ci', v & m, w)
        elif t[1] in ('mul', 'and') and (const_val(a) == 0 or const_val(b) == 0):
            r = ('ci', 0, (a if a[0] == 'ci' else b)[2])
        elif t[1] in ('add', 'or', 'xor') and const_val(b) == 0:
            r = a
        elif t[1] in ('add', 'or', 'xor') and const_val(a) == 0:
            r = b
    elif h == 'cast':
        a = const_fold(t[3], memo)
        r = (h, t[1], t[2], a)
        if a[0] == 'ci' and t[1] in ('zext', 'trunc', 'sext'):
            bits = ir.type_bits(t[2]) if hasattr(ir, 'type_bits') else None
            if bits:
                v = a[1]
                if t[1] == 'sext' and v >= 1 << (a[2] - 1):
                    v -= 1 << a[2]
                r = ('ci', v & ((1 << bits) - 1), bits)
    elif h == 'sel':
        c = const_fold(t[1], memo)
        if c == ir.TRUE:
            r = const_fold(t[2], memo)
        elif c == ir.FALSE:
            r = const_fold(t[3], memo)
        else:
            a, b = const_fold(t[2], memo), const_fold(t[3], memo)
            if a == ir.TRUE and b == ir.FALSE:
                r = c                      # c ? true : false
            elif a == ir.FALSE and b == ir.TRUE:
                r = ir.mk_not(c)
            elif a == b:
                r = a
            else:
                r = (h, c, a, b)
    elif h == 'cmp':
        a, b = const_fold(t[2], memo), const_fold(t[3], memo)
        r = (h, t[1], a, b)
        if a[0] == 'ci' and b[0] == 'ci' and a[2] == b[2]:
            w = a[2]
            sx = lambda v: v - (1 << w) if v >= 1 << (w - 1) else v
            x, y = a[1], b[1]
            v = {'eq': x == y, 'ne': x != y, 'ult': x < y, 'ule': x <= y, 'ugt': x > y, 'uge': x >= y,
                 'slt': sx(x) < sx(y), 'sle': sx(x) <= sx(y), 'sgt': sx(x) > sx(y), 'sge': sx(x) >= sx(y)}.get(t[1])
            if v is not None:
                r = ir.TRUE if v else ir.FALSE
    elif h in ('not', 'and', 'or'):
        xs = [const_fold(x, memo) for x in t[1:]]
        r = ir.mk_not(xs[0]) if h == 'not' else ir.mk_and(*xs) if h == 'and' else ir.mk_or(*xs)
    memo[t] = r
    return r


def subst(t, m, memo=None):
    if memo is None:
        memo = {}
    if not isinstance(t, tuple):
        return t
    if t in m:
        return m[t]
    if t in memo:
        return memo[t]
    r = tuple(subst(x, m, memo) if isinstance(x, tuple) else x for x in t)
    memo[t] = r
    return r


EXT = None      # (extent atom 0, extent atom 1) when the side length is a virtual atom: guards may still mention the extents


def envs(base, n, ncall):
    """environments for side length n: the side atom bound to n and, if the extents can occur, extent pairs with that side"""
    if EXT is None:
        return [dict(base, **{})] if False else [{**base, ncall: n}]
    h = n // 2 + 1 if n > 1 else 1
    return [{**base, ncall: n, EXT[0]: a, EXT[1]: b} for a, b in {(n, 1), (1, n), (h, h), (n, n), (h, 1)}]


def ev(t, env):
    """exact evaluation of a level-arithmetic term in the exponent domain (env binds the level carrier and n)"""
    if t in env:
        return env[t]
    if t[0] == 'fn' and t[1] in ('llvm.umax', 'llvm.umin'):
        a, b = ev(t[3], env), ev(t[4], env)
        return max(a, b) if t[1] == 'llvm.umax' else min(a, b)
    h = t[0]
    if h == 'call' and ('call', t[1], t[2]) in env:
        return env[('call', t[1], t[2])]
    if h == 'ci':
        return t[1]
    if h == 'op':
        a, b = ev(t[3], env), ev(t[4], env)
        w = 64
        if t[1] == 'lshr':
            return (a & M64) >> b if b < w else 0
        if t[1] == 'shl':
            return (a << b) & M64 if b < w else 0
        if t[1] == 'udiv':
            if b == 0:
                raise AnalysisBroken("division by zero in the level schedule")
            return a // b
        if t[1] in ('add', 'sub', 'mul', 'and', 'or', 'xor'):
            return {'add': a + b, 'sub': a - b, 'mul': a * b, 'and': a & b, 'or': a | b, 'xor': a ^ b}[t[1]] & M64
    if h == 'cast' and t[1] in ('zext', 'trunc', 'sext'):
        return ev(t[3], env)
    if h == 'cmp':
        a, b = ev(t[2], env), ev(t[3], env)
        p = t[1]
        if p in ('eq', 'ne', 'ult', 'ule', 'ugt', 'uge'):
            return {'eq': a == b, 'ne': a != b, 'ult': a < b, 'ule': a <= b, 'ugt': a > b, 'uge': a >= b}[p]
    if h == 'not':
        return not ev(t[1], env)
    if h == 'and':
        return ev(t[1], env) and ev(t[2], env)
    if h == 'or':
        return ev(t[1], env) or ev(t[2], env)
    if h == 'sel':
        return ev(t[2], env) if ev(t[1], env) else ev(t[3], env)
    raise AnalysisBroken("Hilbert level schedule uses an operation outside the exponent domain: %s" % ir.show(t)[:80])


D4_NAMES = {('x', 0, 'y', 0): "identity", ('y', 0, 'x', 0): "transpose", ('x', 1, 'y', 1): "rotate by 180 degrees", ('y', 1, 'x', 1): "anti-transpose",
            ('x', 1, 'y', 0): "mirror x", ('x', 0, 'y', 1): "mirror y", ('y', 0, 'x', 1): "rotate", ('y', 1, 'x', 0): "rotate back"}


def apply_T(T, corner):
    """image of a corner (cx, cy) in {0,1}^2 under a symmetry T = (srcx, flipx, srcy, flipy): x' = flip?(src)"""
    v = {'x': corner[0], 'y': corner[1]}
    return (v[T[0]] ^ T[1], v[T[2]] ^ T[3])


def inverse_T(T):
    for cand in D4_NAMES:
        if all(apply_T(cand, apply_T(T, c)) == c for c in ((0, 0), (0, 1), (1, 0), (1, 1))):
            return cand
    raise AssertionError(T)


def induction(q, T):
    """the finite proof obligations (a)-(c); returns None or the first failing obligation as text"""
    quads = [(0, 0), (0, 1), (1, 0), (1, 1)]
    if sorted(q[b] for b in quads) != [0, 1, 2, 3]:
        return "the per-level position digits are %s for quadrants (bx,by) = (0,0),(0,1),(1,0),(1,1): not a bijection onto 0..3, so two cells share a position" % [q[b] for b in quads]
    order = sorted(quads, key=lambda b: q[b])
    E = (0, 0)
    if order[0] != E:
        return "position 0 lies in quadrant %s, not at the origin" % (order[0],)
    X = order[3]
    inv = {b: inverse_T(T[b]) for b in quads}
    ent = {b: apply_T(inv[b], E) for b in quads}     # inner corner at which quadrant b's sub-curve is entered
    ext = {b: apply_T(inv[b], X) for b in quads}
    if ent[order[0]] != E:
        return "the sub-curve of the first quadrant starts at its corner %s, so from the second level on the walk does not start at the origin" % (ent[order[0]],)
    if ext[order[3]] != X:
        return "the sub-curve of the last quadrant %s ends at its corner %s, not at corner %s: the end point of the walk moves from level to level and consecutive squares do not join up" % (order[3], ext[order[3]], X)
    for i in range(3):
        a, b = order[i], order[i + 1]
        diff = [ax for ax in (0, 1) if a[ax] != b[ax]]
        if len(diff) != 1:
            return "positions in quadrant %s are followed by positions in quadrant %s, which does not share an edge with it" % (a, b)
        ax = diff[0]
        other = 1 - ax
        lo, hi = (a, b) if a[ax] == 0 else (b, a)
        c_lo = ext[a] if lo is a else ent[b]
        c_hi = ent[b] if lo is a else ext[a]
        if c_lo[ax] != 1 or c_hi[ax] != 0 or c_lo[other] != c_hi[other]:
            return ("the last cell of quadrant %s (its inner corner %s) and the first cell of quadrant %s (its inner corner %s) are not edge-adjacent for squares of side 4 and more"
                    % (a, ext[a], b, ent[b]))
    return None


class Curve:
    pass


def leaves(t):
    """loop-carried values, arguments and call results a term is built from (a loop-carried value is a leaf)"""
    out = set()
    walk(t, lambda x: out.add(x if x[0] != 'call' else ('call', x[1], x[2])) if x[0] in ('iv', 'arg', 'call', 'ld') else None)
    return out


def walk(t, f, seen=None):
    """visit subterms, treating the result of an opaque call as a leaf"""
    if seen is None:
        seen = set()
    if not isinstance(t, tuple) or id(t) in seen:
        return
    seen.add(id(t))
    f(t)
    if t and t[0] in ('call', 'iv'):
        return
    for x in t:
        if isinstance(x, tuple):
            walk(x, f, seen)


def extract(s, c0, c1, ncall_pred):
    """read the loop: roles, level term, q and T tables.  Raises AnalysisBroken for loops outside the family;
    returns (Curve, None) or (None, violation text)."""
    if len(s.loops) != 1 or len(s.iv) != 4:
        raise AnalysisBroken("Hilbert walk is not a single loop with four loop-carried values (%d loops, %d values): a different algorithm must be re-confirmed by reading" % (len(s.loops), len(s.iv)))
    role = {}
    for pid, info in s.iv.items():
        init = info["init"]
        base = ir.strip_casts(init, ("zext", "sext", "trunc"))
        if const_val(init) == 0 and 'D' not in role:
            role['D'] = pid
        elif base == c0 and 'X' not in role:
            role['X'] = pid
        elif base == c1 and 'Y' not in role:
            role['Y'] = pid
        else:
            role.setdefault('L', pid) if 'L' not in role else role.update({'?': pid})
    if set(role) != {'D', 'X', 'Y', 'L'}:
        raise AnalysisBroken("Hilbert walk: loop-carried values start at %s; expected position 0, the two coordinates and a level" % [ir.show(i["init"])[:40] for i in s.iv.values()])
    iv = {k: ('iv', pid, s.iv[pid]["init"]) for k, pid in role.items()}
    step = {}
    for k, pid in role.items():
        st = s.iv_step(pid)
        if len(st) != 1 or st[0] is None:
            raise AnalysisBroken("Hilbert walk: several back edges")
        step[k] = st[0]
    # quadrant literals
    lits = {}
    level = set()

    def f(x):
        if x[0] == 'cmp':
            a, b = x[2], x[3]
            if const_val(a) is not None:
                a, b = b, a
            if x[1] in ('eq', 'ne', 'ugt') and const_val(b) == 0 and a[0] == 'op' and a[1] == 'and':
                v, l = a[3], a[4]
                if l in (iv['X'], iv['Y']):
                    v, l = l, v
                if v in (iv['X'], iv['Y']):
                    lits[x] = ('x' if v == iv['X'] else 'y', x[1] == 'eq')     # (axis, literal true means bit == 0)
                    level.add(l)
                    return
            raise AnalysisBroken("Hilbert walk: comparison %s is not a test of one coordinate bit at the current level" % ir.show(x)[:80])
    for k in ('D', 'X', 'Y'):
        walk(step[k], f)
    if len(level) != 1 or {a for a, _ in lits.values()} != {'x', 'y'}:
        raise AnalysisBroken("Hilbert walk: the quadrant tests do not use one common level value (%s)" % [ir.show(l)[:40] for l in level])
    S = level.pop()
    if leaves(S) != {iv['L']}:
        raise AnalysisBroken("Hilbert walk: level %s is not a function of the level carrier alone" % ir.show(S)[:60])
    n_atoms = [a for a in ir.atoms(step['X']) | ir.atoms(step['Y']) if a[0] == 'call']
    cur = Curve()
    cur.role, cur.iv, cur.step, cur.S = role, iv, step, S
    names = {iv['X']: 'x', iv['Y']: 'y', iv['D']: 'd', iv['L']: 'L', S: 's'}
    cur.names = names
    atomize = lambda t: t if (t == S or t[0] in ('iv', 'call')) else None
    Xp, Yp, Dp, Sp = (ir.Poly.atom(t, 1 << 64) for t in (iv['X'], iv['Y'], iv['D'], S))
    q, T = {}, {}
    for bx in (0, 1):
        for by in (0, 1):
            m = {l: (ir.TRUE if ((bx if ax == 'x' else by) == 0) == zero_means_true else ir.FALSE) for l, (ax, zero_means_true) in lits.items()}
            case = {k: const_fold(subst(step[k], m)) for k in ('D', 'X', 'Y')}
            dfull = ir.to_poly(case['D'], 'int', atomize=atomize, width=64)
            dd = dfull - Dp
            coef = None
            # the position may also be accumulated digit by digit, most significant first: d' = 4*d + q (Horner form of the same
            # base-4 number, since the levels run from the top down)
            horner = dfull - Dp * ir.Poly.const(4, 1 << 64)
            if horner.is_const() and (not horner.t or list(horner.t.values())[0] <= 3) and (bx, by) != (0, 0) or (horner.is_const() and not dd.is_const()):
                coef = list(horner.t.values())[0] if horner.t else 0
            elif not dd.t:
                coef = 0
            elif set(dd.t) == {tuple(sorted((S, S), key=repr))}:
                coef = list(dd.t.values())[0]
            if coef is None:
                others = {a for mon in dd.t for a in mon} - {S}
                if others:
                    raise AnalysisBroken("Hilbert walk: position increment %s in quadrant (%d,%d) is not a multiple of the squared level" % (dd.show(names)[:80], bx, by))
                return None, "in quadrant (bx,by) = (%d,%d) the position grows by %s; a walk that fills a 2^k square digit by digit must add q*s^2 with q in 0..3 (positions of different levels overlap or leave gaps otherwise)" % (bx, by, dd.show(names))
            if coef > 3:
                return None, "in quadrant (bx,by) = (%d,%d) the position grows by %d*s^2: not a base-4 digit" % (bx, by, coef)
            q[(bx, by)] = coef
            t = []
            for k in ('X', 'Y'):
                p = ir.to_poly(case[k], 'int', atomize=atomize, width=64)
                form = None
                for src, sp in (('x', Xp), ('y', Yp)):
                    if p == sp:
                        form = (src, 0)
                    else:
                        rest = p + sp + ir.Poly.const(1, 1 << 64)       # p = W - 1 - src  <=>  rest == W
                        if len(rest.t) == 1 and list(rest.t.values()) == [1]:
                            (mon,) = rest.t
                            if len(mon) == 1 and (mon[0][0] == 'call' or mon[0] == S or mon[0] == iv['L']):
                                form = (src, 1)      # flips (at least) the bits below the current level
                if form is None:
                    raise AnalysisBroken("Hilbert walk: in quadrant (%d,%d) coordinate %s becomes %s: not x, y or a reflection of one of them" % (bx, by, k.lower(), p.show(names)[:80]))
                t += list(form)
            t = tuple(t)
            if t not in D4_NAMES:
                return None, "in quadrant (bx,by) = (%d,%d) the coordinates become (%s%s, %s%s): both derive from the same coordinate, so distinct cells of the quadrant collapse" % (
                    bx, by, "~" if t[1] else "", t[0], "~" if t[3] else "", t[2])
            T[(bx, by)] = t
    cur.q, cur.T = q, T
    return cur, None


def schedule(s, cur, ncall, coords):
    """level schedule in the exponent domain; returns None or violation text"""
    L = cur.iv['L']
    S = cur.S
    init = s.iv[cur.role['L']]["init"]
    s0 = subst(S, {L: init})
    dep = leaves(s0)
    if dep & set(coords):
        parity = []
        walk(s0, lambda x: parity.append(x) if (x[0] == 'op' and x[1] in ('and', 'xor', 'urem') and (const_val(x[4]) in (1, 2) or const_val(x[3]) in (1, 2))) else None)
        if parity or cur.T[(0, 0)] == ('x', 0, 'y', 0):
            raise AnalysisBroken("Hilbert walk: the first level depends on the coordinates in a way that is not decided here: %s" % ir.show(s0)[:100])
        return ("the first level of the walk is %s, which depends on the coordinates: leading levels are skipped for some cells only, but a level at which both coordinate bits are zero is not a no-op "
                "(it applies the symmetry '%s'), so the cells of a smaller square are numbered along a differently oriented curve than the rest and consecutive positions across its border are not adjacent"
                % (ir.show(s0, cur.names)[:120], D4_NAMES[cur.T[(0, 0)]]))
    if any(a != ncall for a in dep):
        raise AnalysisBroken("Hilbert walk: first level %s depends on something other than the side length" % ir.show(s0)[:80])
    nxt = subst(S, {L: cur.step['L']})
    latches = list(getattr(s, "latch_cond", {}).values())
    if len(latches) != 1:
        raise AnalysisBroken("Hilbert walk: %d back edges" % len(latches))
    for k in range(0, 64):
        n = 1 << k
        firsts = {ev(s0, e_) for e_ in envs({}, n, ncall)}
        first = min(firsts)
        if k == 0:
            continue
        if any(f_ & (f_ - 1) for f_ in firsts) or first < n // 2:
            return "for side length 2^%d the walk starts at level %d; it must start at (at least) %d so that the top bit of the coordinates is examined" % (k, first, n // 2)
    # every carrier value 2^m that denotes a level of the walk for side length 2^k
    seen_levels = set()
    for k in range(1, 64):
        n = 1 << k
        for m in range(0, 64):
            c = 1 << m
            for e_ in envs({L: c}, n, ncall):
                lev = ev(S, e_)
                if lev == 0 or lev & (lev - 1) or lev > ev(s0, e_):
                    continue
                seen_levels.add(lev)
                nl = ev(nxt, e_)
                if nl != lev // 2:
                    return "after level %d the walk continues at level %d, not %d" % (lev, nl, lev // 2)
                cont = ev(latches[0], e_)
                if cont != (lev // 2 != 0):
                    return "at level %d (side length 2^%d) the loop %s; it must run down to level 1 inclusive and stop there" % (lev, k, "continues" if cont else "stops")
    if 1 not in seen_levels:
        raise AnalysisBroken("Hilbert walk: level carrier does not reach level 1 in the exponent domain")
    return None


def result(s, cur, ncall, res):
    """the value handed on is 0 for the 1x1 square and the position after the last level otherwise"""
    if any(ev(res, e_) != 0 for e_ in envs({}, 1, ncall)):
        return "for a 1 x 1 square the position is not 0"
    guards = {}

    def f(x):
        if x[0] == 'cmp' and not any(a[0] == 'iv' for a in leaves(x)):
            guards[x] = None
    walk(res, f)
    forms = set()
    for k in range(1, 64):
        for e_ in envs({}, 1 << k, ncall):
            m = {g: (ir.TRUE if ev(g, e_) else ir.FALSE) for g in guards}
            forms.add(const_fold(subst(res, m)))
    if forms == {cur.step['D']}:
        return None
    if forms == {cur.iv['D']}:
        return "the position returned is the one before the last level was added"
    raise AnalysisBroken("Hilbert walk: the value handed on is %s, not the accumulated position" % [ir.show(f)[:60] for f in forms][:2])


def check(s, c0, c1, ncall, res):
    """-> (verdict text or None, description dict).  AnalysisBroken when the loop is outside the family."""
    cur, bad = extract(s, c0, c1, None)
    if bad:
        return bad, None
    desc = {"digits q(bx,by)": {str(k): v for k, v in cur.q.items()}, "symmetries T(bx,by)": {str(k): D4_NAMES[v] for k, v in cur.T.items()},
            "level": ir.show(cur.S, {cur.iv['L']: 'L'}), "first level": ir.show(subst(cur.S, {cur.iv['L']: s.iv[cur.role['L']]["init"]}))[:60]}
    bad = induction(cur.q, cur.T)
    if bad:
        return bad, desc
    bad = schedule(s, cur, ncall, (c0, c1))
    if bad:
        return bad, desc
    return result(s, cur, ncall, res), desc


# ---- a side length computed without calling round_pow2 (bit tricks, a cached member) ------------------------------------
def ev_int(t, env):
    """exact evaluation of a straight-line integer term over the extents (no coordinates, no loop values), at the width of each
    operation's type"""
    if t in env:
        return env[t]
    h = t[0]
    if h == 'ci':
        return t[1] & ((1 << t[2]) - 1)
    if h == 'op':
        w = ir.type_bits(t[2]) or 64
        m = (1 << w) - 1
        a, b = ev_int(t[3], env) & m, ev_int(t[4], env) & m
        o = t[1]
        if o == 'lshr':
            return a >> b if b < w else 0
        if o == 'shl':
            return (a << b) & m if b < w else 0
        if o in ('udiv', 'urem'):
            if b == 0:
                raise AnalysisBroken("division by zero in the side length")
            return a // b if o == 'udiv' else a % b
        if o in ('add', 'sub', 'mul', 'and', 'or', 'xor'):
            return {'add': a + b, 'sub': a - b, 'mul': a * b, 'and': a & b, 'or': a | b, 'xor': a ^ b}[o] & m
    if h == 'cast' and t[1] in ('zext', 'trunc', 'sext'):
        v = ev_int(t[3], env)
        bits = ir.type_bits(t[2]) or 64
        if t[1] == 'sext':
            iw = ir.type_bits(ir.term_type(t[3]) or '') or 64
            v &= (1 << iw) - 1
            if v >> (iw - 1):
                v -= 1 << iw
        return v & ((1 << bits) - 1)
    if h == 'cmp':
        w = ir.type_bits(ir.term_type(t[2]) or '') or ir.type_bits(ir.term_type(t[3]) or '') or 64
        m = (1 << w) - 1
        a, b = ev_int(t[2], env) & m, ev_int(t[3], env) & m
        sx = lambda v: v - (1 << w) if v >> (w - 1) else v
        return {'eq': a == b, 'ne': a != b, 'ult': a < b, 'ule': a <= b, 'ugt': a > b, 'uge': a >= b,
                'slt': sx(a) < sx(b), 'sle': sx(a) <= sx(b), 'sgt': sx(a) > sx(b), 'sge': sx(a) >= sx(b)}[t[1]]
    if h in ('not', 'and', 'or'):
        xs = [ev_int(x, env) for x in t[1:]]
        return (not xs[0]) if h == 'not' else (xs[0] and xs[1]) if h == 'and' else (xs[0] or xs[1])
    if h == 'sel':
        return ev_int(t[2], env) if ev_int(t[1], env) else ev_int(t[3], env)
    if h == 'fn':
        base = t[1]
        w = ir.type_bits(t[2]) or 64
        args = [ev_int(x, env) & ((1 << w) - 1) if not isinstance(ev_int(x, env), bool) else ev_int(x, env) for x in t[3:]]
        if base == 'llvm.ctlz':
            return w - args[0].bit_length() if args[0] else w
        if base == 'llvm.cttz':
            return (args[0] & -args[0]).bit_length() - 1 if args[0] else w
        if base == 'llvm.ctpop':
            return bin(args[0]).count("1")
        if base == 'llvm.umax':
            return max(args[0], args[1])
        if base == 'llvm.umin':
            return min(args[0], args[1])
    raise AnalysisBroken("the expression uses an operation this evaluation does not know: %s" % ir.show(t)[:80])


def rp2(m):
    v = 1
    while v < m:
        v *= 2
    return v


def extent_pairs():
    """extents at which an expression built from `count leading zeros`, shifts and constants can change its value: the
    powers of two and their neighbours, for the larger extent; the other extent smaller, equal, or 1; both orders"""
    out = []
    for k in range(0, 40):
        for m in sorted({max(1, (1 << k) + d) for d in (-2, -1, 0, 1, 2)}):
            for o in (1, m, max(1, m // 2), max(1, m - 1)):
                out += [(m, o), (o, m)]
    return sorted(set(out))


def side_without_call(s, cur, ext, coords):
    """The walk does not obtain its side from utility::round_pow2.  The first level, a straight-line expression over the
    extents, is evaluated at the extents where such an expression can change; it must be a power of two >= half of the
    least power of two >= the larger extent.  Returns (violation | None, atom mapping for the rest of the analysis)."""
    L = cur.iv['L']
    init = s.iv[cur.role['L']]["init"]
    s0 = subst(cur.S, {L: init})
    lv = leaves(s0)
    if lv & set(coords):
        return None, None          # judged by schedule()
    if not lv <= set(ext) or any(a[0] == 'call' for a in lv):
        raise AnalysisBroken("Hilbert walk: first level %s depends on something other than the extents" % ir.show(s0)[:80])
    for (e0, e1) in extent_pairs():
        env = {ext[0]: e0, ext[1]: e1}
        v = ev_int(s0, env)
        n = rp2(max(e0, e1))
        if n == 1:
            continue
        if v == 0 or v & (v - 1) or v < n // 2:
            return ("for extents (%d, %d) the walk starts at level %d; the curve must cover a square of side %d (the larger extent rounded up to a power of two), so the first level must be at least %d: "
                    "cells whose coordinates have higher bits set share positions with others" % (e0, e1, v, n, n // 2)), None
    return None, True


VIRT = ('call', 'virtual_side', -1)


class Proxy:
    """the loop view of a function with the side-length expression replaced by an atom"""

    def __init__(self, s, m):
        self.s, self.m = s, m
        self.loops = s.loops
        self.iv = {k: dict(v, init=subst(v["init"], m)) for k, v in s.iv.items()}
        self.latch_cond = {k: subst(v, m) for k, v in getattr(s, "latch_cond", {}).items()}
        self.ret_cond = [(subst(c, m), subst(v, m) if isinstance(v, tuple) else v) for c, v in s.ret_cond]

    def iv_step(self, pid):
        return [subst(x, m_) if x is not None else None for x, m_ in ((x, self.m) for x in self.s.iv_step(pid))]


def virtual_side(s, ext, coords):
    """When no round_pow2 call is present: the sub-expression of the level carrier's start value that depends on the extents
    only is checked to BE the least power of two >= the larger extent (or half of it) at every extent pair where it can
    change, and replaced by an atom so that the induction and the schedule are decided as usual.
    Returns (proxy, atom, violation text)."""
    cand = None
    for pid, info in s.iv.items():
        lv = leaves(info["init"])
        if lv and lv <= set(ext):
            cand = info["init"]
    if cand is None:
        inits = [ir.strip_casts(i["init"], ("zext", "sext", "trunc")) for i in s.iv.values()]
        if s.iv and all(x[0] == 'ci' or x in coords for x in inits):
            return None, None, ("no loop-carried value of the walk starts from the extents (start values: %s): the curve's side does not depend on the field's size, "
                                "so the walk cannot cover the square the storage is allocated for" % [ir.show(x) for x in inits])
        return None, None, None
    vals = []
    for (e0, e1) in extent_pairs():
        v = ev_int(cand, {ext[0]: e0, ext[1]: e1})
        vals.append((e0, e1, v, rp2(max(e0, e1))))
    agree = all(v == n for _, _, v, n in vals) or all(v == n // 2 for _, _, v, n in vals)
    if agree and not step_expr(cand, set(ext)):
        # no witness against it, but agreement at the points tried proves equality only for a step expression
        raise AnalysisBroken("Hilbert walk: the side %s agrees with round_pow2(max extent) at every extent pair tried but is not a step expression of the extents: not decided" % ir.show(cand)[:100])
    if all(v == n for _, _, v, n in vals):
        return Proxy(s, {cand: VIRT}), VIRT, None
    if all(v == n // 2 for _, _, v, n in vals):
        return Proxy(s, {cand: ('op', 'lshr', 'i64', VIRT, ('ci', 1, 64))}), VIRT, None
    e0, e1, v, n = next((x for x in vals if x[2] != x[3] and x[2] != x[3] // 2), None) or next(x for x in vals if x[2] != x[3] and x[3] > 1)
    return None, None, ("for extents (%d, %d) the walk's side is derived from %d; the curve must cover a square of side %d (the larger extent rounded up to a power of two): "
                        "cells whose coordinates have higher bits set share positions with others, or positions exceed the storage" % (e0, e1, v, n))


def step_expr(t, atoms, memo=None):
    """Is t a STEP expression of the given atoms: they reach the result only through count-leading-zeros (of the atom, a
    max/min of atoms, or such a value plus/minus a small constant), through comparisons of such values with constants or
    with each other, and through max/min/select among them.  Such an expression is constant between consecutive points
    2^k + d (|d| <= 2), which is what justifies deciding it by evaluation at those points."""
    if memo is None:
        memo = {}
    if t in memo:
        return memo[t]
    def lin(x):            # atom, max/min of atoms, +- small constant, casts
        if x in atoms:
            return True
        if x[0] == 'cast' and x[1] in ('zext', 'sext', 'trunc'):
            return lin(x[3])
        if x[0] == 'fn' and x[1] in ('llvm.umax', 'llvm.umin'):
            return lin(x[3]) and lin(x[4])
        if x[0] == 'sel':
            return cond(x[1]) and lin(x[2]) and lin(x[3])
        if x[0] == 'op' and x[1] in ('lshr', 'shl') and x[4][0] == 'ci' and x[4][1] <= 1:
            return lin(x[3])          # a shift by a constant moves the boundaries from 2^k to 2^(k -+ c)
        if x[0] == 'op' and x[1] in ('add', 'sub') and x[4][0] == 'ci':
            wb = x[4][2]
            c = x[4][1] if x[4][1] < (1 << (wb - 1)) else (1 << wb) - x[4][1]
            return c <= 2 and lin(x[3])
        return False
    def cond(c):
        if c[0] in ('not',):
            return cond(c[1])
        if c[0] in ('and', 'or'):
            return cond(c[1]) and cond(c[2])
        if c[0] == 'cmp':
            return all(lin(y) or free(y) for y in (c[2], c[3]))
        return c in (ir.TRUE, ir.FALSE)
    def free(x):           # no dependence on the atoms except through ctlz of a linear value / conditions of the allowed kind
        if x in atoms:
            return False
        if x[0] in ('ci',):
            return True
        if x[0] == 'fn' and x[1] == 'llvm.ctlz':
            return lin(x[3])
        if x[0] == 'fn' and x[1] in ('llvm.umax', 'llvm.umin'):
            return all(free(y) for y in x[3:5])
        if x[0] == 'sel':
            return cond(x[1]) and free(x[2]) and free(x[3])
        if x[0] == 'op':
            return free(x[3]) and free(x[4])
        if x[0] == 'cast':
            return free(x[3])
        if x[0] == 'cmp':
            return cond(x)
        if x[0] == 'call' and (x[1] or "").startswith(("_ZN6covfie7utility10round_pow2", "_ZN6covfie7utility4ipow")):
            return all(free(y) or lin(y) for y in x[3:])
        if x[0] == 'extractvalue':
            return free(x[1])
        if x[0] in ('fn', 'call') and (x[1] or "").startswith("llvm.umul.with.overflow"):
            return all(free(y) for y in x[3:5])
        return False
    r = free(t) or lin(t)
    memo[t] = r
    return r
