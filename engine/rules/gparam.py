"""G-PARAM lint: the per-layer contracts are established over an opaque probe backend and transfer to every stack only
if a layer cannot tell backends apart.  The concept interface guarantees that for values; this scan covers the one
remaining channel - compile-time inspection of the backend's TYPE inside a lookup or a serialiser
(`if constexpr (std::is_same_v<backend_t, ...>)`, `requires`, `is_constructible` on backend types...).
Hits are not verdicts about behaviour: they mean the probe-based verdicts cannot be transferred (exit 2)."""
import os
import re

from .. import common
from .c16 import strip_comments

FUNCS = ("at", "read_binary", "write_binary", "calculate_index", "adjust", "shuffle", "at_helper", "_backend_index_helper")
TRAITS = r"(is_same|is_base_of|is_constructible|is_convertible|is_invocable|requires\s*\(|requires\s*\{|decltype\s*\(\s*std::declval)"
BACKEND_NAMES = r"(backend_t|_backend_t|_storage_t|array_t|decltype\s*\(\s*m_backend\s*\)|decltype\s*\(\s*m_storage\s*\))"


def scan():
    hits = []
    nfun = 0
    for sub in ("core", "cpu"):
        for root, _, files in os.walk(os.path.join(common.LIB, sub, "covfie", sub, "backend")):
            for f in sorted(files):
                if not f.endswith(".hpp"):
                    continue
                p = os.path.join(root, f)
                src = strip_comments(open(p, errors="replace").read())
                for m in re.finditer(r"\b(%s)\s*\(" % "|".join(FUNCS), src):
                    # find the body: skip the parameter list, then expect '{' (possibly after const / noexcept / -> type)
                    i = m.end()
                    depth = 1
                    while i < len(src) and depth:
                        depth += {"(": 1, ")": -1}.get(src[i], 0)
                        i += 1
                    j = i
                    while j < len(src) and src[j] not in "{;=":
                        j += 1
                    if j >= len(src) or src[j] != "{":
                        continue
                    k = j + 1
                    depth = 1
                    while k < len(src) and depth:
                        depth += {"{": 1, "}": -1}.get(src[k], 0)
                        k += 1
                    body = src[j:k]
                    nfun += 1
                    for t in re.finditer(TRAITS, body):
                        seg = body[t.start():t.start() + 400]
                        end = seg.find(";")
                        seg = seg[:end if end > 0 else 400]
                        if re.search(BACKEND_NAMES, seg):
                            ln = src.count("\n", 0, j + t.start()) + 1
                            hits.append((common.repo_rel(p), ln, m.group(1), " ".join(seg.split())[:100]))
    return hits, nfun
