"""C03  Linear interpolation is the N-linear interpolant over the input dimensions.

E3 over linear<probe<I,N,T,M>, vd<F,N>> for N and M chosen independently.
Dependence/routing level (C03.a-d): 2^N backend queries; argument k of every
query is int(c_k)+b with b in {0,1} and depends on c_k only; the 2^N offset
vectors are exactly {0,1}^N; output q depends on every coordinate and on
component q - only q - of every queried value.  Ring level (C03.e, D-poly):
output q, as a real-ring polynomial over f_k = c_k - trunc(c_k) and the queried
values, equals sum_n prod_k (b_k(n) ? f_k : 1-f_k) * P[n][q].
"""
import itertools
from fractions import Fraction

from .. import harness, ir
from ..common import Report, AnalysisBroken
from ..harness import Harness, STYPES

FILE = "lib/core/covfie/core/backend/transformer/linear.hpp"


def make(N, M, F, I, T):
    fct, ict = STYPES[F][0], STYPES[I][0]
    args = [(fct, ('c', k)) for k in range(N)] + [("std::uint64_t", 'tag')]
    body = """
  using P = verif::vprobe<%s, %d, %s, %d>;
  using B = linear<P, verif::vd<%s, %d>>;
  B::owning_data_t o(B::configuration_t{}, P::owning_data_t(P::configuration_t{a%d}));
  B::non_owning_data_t v(o);
  auto r = v.at({%s});
  %s
""" % (ict, N, T, M, fct, N, N, ", ".join("a%d" % k for k in range(N)), " ".join("out[%d] = r[%d];" % (q, q) for q in range(M)))
    return Harness("linear_%s%d_%s_%s%d" % (F, N, I, T, M), args, body, out=(T, M), meta={"N": N, "M": M, "F": F, "I": I, "T": T})


def parse_arg(t):
    """-> (coordinate atom, offset) for terms of the form cast*(fptoXi(c)) [+ const]"""
    off = 0
    t = ir.strip_casts(t)
    while t[0] == 'op' and t[1] in ('add', 'or') and t[4][0] == 'ci':
        v = t[4][1]
        if v >= 1 << (t[4][2] - 1):
            v -= 1 << t[4][2]
        off += v
        t = ir.strip_casts(t[3])
    if t[0] == 'cast' and t[1] in ('fptoui', 'fptosi'):
        inner = t[3]
        if inner[0] == 'cast' and inner[1] in ('fpext',):
            inner = inner[3]
        if inner[0] == 'arg':
            return inner, off, t[1]
    return None, None, None


def check_one(rep, h):
    N, M, F, I, T = (h.meta[k] for k in ("N", "M", "F", "I", "T"))
    inst = "linear<%s^%d -> %s^%d over %s>" % (F, N, T, M, I)
    if h.error:
        loc, msg = harness.first_error(h)
        rep.fail("C03.compile", inst, loc, "does not compile: " + msg)
        return
    rep.ok("C03.compile", inst)
    s = ir.Sym(h.func)
    if s.unknown:
        raise AnalysisBroken("C03 %s: unmodelled instruction %s at %s" % (inst, s.unknown[0]["op"], ir.where(s.unknown[0])))
    sinks = s.opaque_calls("_ZN5verif4sink")
    others = [c for c in s.calls if c not in sinks]
    if len(sinks) != 2 ** N or others or any(c.cond != ir.TRUE for c in sinks):
        rep.fail("C03.a", inst, FILE, "expected %d unconditional backend queries (2^N, N=%d input dimensions), found %d%s" % (
            2 ** N, N, len(sinks), " and other calls %s" % [c.dname for c in others][:2] if others else ""))
        return
    rep.ok("C03.a", inst)
    offs = []
    ok = True
    for c in sinks:
        if len(c.args) != N + 1 or c.args[0] != h.atom('tag'):
            rep.fail("C03.b", inst, ir.where(c.inst), "query #%d has %d coordinate components (expected %d) or is made on a different view" % (c.n, len(c.args) - 1, N))
            ok = False
            break
        vec = []
        for k in range(N):
            a, off, conv = parse_arg(c.args[1 + k])
            if a != h.atom(('c', k)) or off not in (0, 1):
                rep.fail("C03.b", "%s query#%d arg%d" % (inst, c.n, k), ir.where(c.inst),
                         "component %d of query #%d is %s; expected int(c%d) + {0,1}" % (k, c.n, ir.show(c.args[1 + k]), k))
                ok = False
                break
            vec.append(off)
        if not ok:
            break
        offs.append(tuple(vec))
    if not ok:
        return
    rep.ok("C03.b", inst)
    if sorted(offs) != sorted(itertools.product((0, 1), repeat=N)):
        rep.fail("C03.c", inst, FILE, "neighbour offsets are %s, expected every vector of {0,1}^%d exactly once" % (sorted(offs), N))
        return
    rep.ok("C03.c", inst)
    tsz = 4 if T == "float" else 8
    outs = s.outputs(h.out_index)
    coords = {h.atom(('c', k)) for k in range(N)}
    fty = F

    def atomize(x):
        # f_k = c_k - trunc(c_k)
        if x[0] == 'op' and x[1] == 'fsub' and x[3] in coords and x[4][0] == 'fn' and x[4][1] in ('llvm.trunc', 'llvm.floor', 'truncf', 'trunc', 'floorf', 'floor') and x[4][3] == x[3]:
            return ('frac', x[3][1])
        if x[0] == 'ld' and x[1][0] == 'ret':
            return x
        return None

    for q in range(M):
        t = outs.get(tsz * q)
        qi = "%s out[%d]" % (inst, q)
        if t is None:
            rep.fail("C03.d", qi, FILE, "output component never written")
            continue
        at = ir.atoms(t)
        lds = {a for a in at if a[0] == 'ld'}
        want = {('ld', ('ret', c.n), tsz * q, tsz, T, 0) for c in sinks}
        cs = {a for a in at if a[0] == 'arg'}
        if lds != want or cs != coords or any(a[0] in ('undef', 'poison', 'unk') for a in at):
            rep.fail("C03.d", qi, FILE, "output %d depends on %s of the queried values and coordinates %s; expected component %d of all %d neighbours and all %d coordinates" % (
                q, sorted({(a[1][1], a[2] // tsz) for a in lds})[:8], sorted(a[1] for a in cs), q, 2 ** N, N))
            continue
        rep.ok("C03.d", qi)
        # precision: only the coordinate's and the stored value's floating types may appear
        allowed = {F, T}
        badc = []

        def pf(x):
            if x[0] in ('op', 'cast', 'fn') and x[2] in ('float', 'double', 'half', 'x86_fp80', 'fp128') and x[2] not in allowed:
                badc.append(x)
        ir.walk(t, pf)
        if badc:
            rep.fail("C03.f", qi, FILE, "interpolation computes in %s although coordinate is %s and stored values are %s: %s" % (badc[0][2], F, T, ir.show(badc[0])[:140]))
        else:
            rep.ok("C03.f", qi)
        memo = {}
        p = ir.to_poly(t, 'real', atomize=atomize, memo=memo)
        exp = ir.Poly({})
        one = ir.Poly.const(Fraction(1))
        for c, vec in zip(sinks, offs):
            w = one
            for k, b in enumerate(vec):
                f = ir.Poly.atom(('frac', k))
                w = w * (f if b else one - f)
            exp = exp + w * ir.Poly.atom(('ld', ('ret', c.n), tsz * q, tsz, T, 0))
        if p != exp:
            names = {('frac', k): "f%d" % k for k in range(N)}
            d = p - exp
            rep.fail("C03.e", qi, FILE, "interpolation polynomial differs from the N-linear interpolant; difference has %d monomials, e.g. %s" % (
                len(d.t), ir.Poly(dict(list(d.t.items())[:3])).show(names)))
            continue
        else:
            rep.ok("C03.e", qi, sample={"instance": qi, "monomials": len(p.t)} if q == 0 and N == 2 else None)
        # C03.g: every intermediate value that involves stored values is a sub-convex combination of them
        # for all fractional parts in [0,1]^N (coefficients are multilinear, so the cube's vertices decide)
        worst = None
        for x, px in memo.items():
            if x[0] not in ('op', 'fn', 'cast') or not any(a[0] == 'ld' for mon in px.t for a in mon):
                continue
            coeff = {}      # P atom -> {vertex: value}
            multilinear = True
            for mon, cf in px.t.items():
                lds = [a for a in mon if a[0] == 'ld']
                fr = [a for a in mon if a[0] == 'frac']
                rest = [a for a in mon if a[0] not in ('ld', 'frac')]
                if len(lds) != 1 or rest or len(set(fr)) != len(fr):
                    if lds:
                        multilinear = False
                    continue
                for v in itertools.product((0, 1), repeat=N):
                    val = cf
                    for a in fr:
                        val = val * v[a[1]]
                    coeff.setdefault(lds[0], {}).setdefault(v, 0)
                    coeff[lds[0]][v] += val
            if not multilinear:
                raise AnalysisBroken("C03 %s: intermediate value is not multilinear in the fractional parts; convexity rule cannot decide: %s" % (qi, ir.show(x)[:120]))
            for v in itertools.product((0, 1), repeat=N):
                tot = sum(cv.get(v, 0) for cv in coeff.values())
                neg = [cv.get(v, 0) for cv in coeff.values() if cv.get(v, 0) < 0]
                if neg or tot > 1:
                    worst = (x, v, neg, tot)
                    break
            if worst:
                break
        if worst:
            x, v, neg, tot = worst
            rep.fail("C03.g", qi, FILE, "an intermediate value combines stored values with %s at fractional parts %s: not a convex combination, it can overflow or leave the range of the neighbours for large finite data: %s" % (
                "a negative weight" if neg else "weights summing to %s" % tot, list(v), ir.show(x)[:140]))
        else:
            rep.ok("C03.g", qi)


def declare(rep):
    rep.rule("C03.compile", "linear<probe<I,N,T,M>, vd<F,N>> lookup harness compiles", floor=8)
    rep.rule("C03.a", "exactly 2^N unconditional backend queries", floor=8)
    rep.rule("C03.b", "argument k of every query is int(c_k)+b, b in {0,1}, and depends on c_k only", floor=8)
    rep.rule("C03.c", "the 2^N offset vectors are exactly {0,1}^N, each once", floor=8)
    rep.rule("C03.d", "output q depends on all coordinates and on component q (only) of every queried value", floor=16)
    rep.rule("C03.g", "every intermediate that involves stored values is a sub-convex combination of them on [0,1]^N (range clause for arbitrary finite data)", floor=16)
    rep.rule("C03.f", "precision: every floating operation is performed in the coordinate's or the stored value's type, never a narrower third one", floor=16)
    rep.rule("C03.e", "output q == sum_n prod_k (b_k(n) ? f_k : 1-f_k) * P[n][q] as a real-ring polynomial (D-poly)", floor=16)


def combos(tier):
    if tier == "quick":
        return [(1, 1, "float", "size_t", "float"), (1, 3, "double", "int", "float"), (2, 1, "float", "size_t", "double"), (2, 2, "double", "unsigned", "double"),
                (2, 3, "float", "int", "float"), (3, 1, "double", "size_t", "float"), (3, 2, "float", "size_t", "float"), (3, 3, "float", "size_t", "float"),
                (4, 2, "float", "size_t", "double"), (1, 4, "float", "size_t", "float"), (4, 1, "double", "int", "float")]
    out = []
    for N in (1, 2, 3, 4, 5):
        for M in (1, 2, 3, 4):
            for F in ("float", "double"):
                for T in ("float", "double"):
                    I = ("size_t", "unsigned", "int")[(N + M) % 3]
                    out.append((N, M, F, I, T))
    return out


def harnesses(tier):
    return [make(*c) for c in combos(tier)]


def run(rep, tier):
    hs = harnesses(tier)
    harness.build(hs, "c03", per_tu=6)
    for h in hs:
        check_one(rep, h)
    return hs


def check(tier):
    rep = Report("C03", tier, "other")
    declare(rep)
    hs = run(rep, tier)
    rep.assumptions = ["ring identity, i.e. 'up to floating-point rounding' in the property's words; the rounding error bound itself is not decided",
                       "lattice-point exactness and the range clause are consequences of the interpolant form for finite data under IEEE arithmetic (stated, not machine-checked)",
                       "coordinates in the stated domain 0 <= x_k < extent_k - 1 (fp->int conversion defined)"]
    rep.extra["instantiations"] = [h.name for h in hs]
    return rep.finish(
        "For each instantiation the optimised loop-free IR of linear::at over the opaque probe backend is read as terms: query count, per-argument routing int(c_k)+{0,1}, "
        "offset-vector set {0,1}^N, output dependence, and the interpolation expression canonicalised as a polynomial in the real ring and compared with the textbook N-linear form. "
        "N and M vary independently (N != M included), coordinate float/double, stored float/double. Decides structure and the ring identity, not the rounding error.",
        "bin/vcheck C03 (clang++ -O2 -emit-llvm | build/irdump | engine/ir.py to_poly)",
        ["clang 14 -O2 IR faithful to source (-ffp-contract=off, no fast-math)", "engine/ir.py term builder and polynomial normal form"])
