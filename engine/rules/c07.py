"""C07  Files are portable across interpolation method, storage precision and revisions.

  C07.a  layers without an on-disk footprint (linear, nearest_neighbour - and shuffle, covariant_cast, dereference):
         their writer and reader are exactly one DELEGATE to the inner backend, so files are interchangeable between them
  C07.b  storage precision: the array reader accepts element widths 4 and 8 for either in-memory scalar, reads
         sizeof(on-disk scalar) bytes per element and converts with one fpext (exact) or fptrunc (round to nearest)
         or not at all (io_array.py)
  C07.c  format stability: the grammar extracted from the current tree (magic words, footer offset, per-layer tag,
         per-layer item list with byte counts, for a fixed set of instantiations) equals the frozen table
         spec/format_v1.json written from the pinned revision; tags are pairwise distinct.  This freezes the FORMAT,
         not source text: any difference changes bytes on disk and orphans existing files
  C07.d  nesting: every tagged layer's stream is HDR(tag) payload* DELEGATE? FTR(tag)
"""
import json
import os

from .. import common, ir
from ..common import Report, AnalysisBroken
from . import io, io_array

SPEC = os.path.join(common.VERIF, "spec", "format_v1.json")


def key(g):
    m = g.hw.meta
    return "%s%s<%s,%d>" % ("field:" if m["field"] else "", m["layer"], m["S"], m["N"])


def extract(tier):
    gs = io.build_pairs(io.universe(tier), "c07")
    table = {}
    for g in gs:
        if g.ok:
            table[key(g)] = g.summary()["W"]
    return gs, table


def declare(rep):
    rep.rule("C07.compile", "writer/reader harness compiles", floor=20)
    rep.rule("C07.a", "layers without on-disk footprint serialise as exactly one DELEGATE on both sides", floor=5)
    rep.rule("C07.c", "extracted byte grammar of the layer equals the frozen format table (spec/format_v1.json)", floor=20)
    rep.rule("C07.c-tags", "per-layer tags are pairwise distinct", floor=1)
    rep.rule("C07.d", "tagged layers nest as HDR(tag) payload* DELEGATE? FTR(tag)", floor=10)


def run(rep, tier):
    if not os.path.exists(SPEC):
        raise AnalysisBroken("frozen format table spec/format_v1.json is missing")
    frozen = json.load(open(SPEC))["grammar"]
    gs, table = extract(tier)
    tags = {}
    for g in gs:
        k = key(g)
        m = g.hw.meta
        file = io.layer_file(m["layer"])
        if not g.ok:
            from .. import harness
            h = g.hw if g.hw.error else g.hr
            loc, msg = harness.first_error(h)
            rep.fail("C07.compile", k, loc, "does not compile: " + msg)
            continue
        rep.ok("C07.compile", k)
        W = table[k]
        R = g.summary()["R"]
        if m["layer"] in io.TRANSPARENT and not m["field"]:
            if W == ["DELEGATE"] and R == ["DELEGATE"]:
                rep.ok("C07.a", k)
            else:
                rep.fail("C07.a", k, file, "layer is supposed to leave no trace in the file but writes %s / reads %s" % (W, R))
        if k not in frozen:
            raise AnalysisBroken("instantiation %s is not in the frozen format table; regenerate it only from the pinned revision" % k)
        if W != frozen[k]:
            rep.fail("C07.c", k, file, "on-disk grammar changed: now %s, frozen format is %s (existing files would no longer load, or re-dump to different bytes)" % (W, frozen[k]))
        else:
            rep.ok("C07.c", k, sample={"layer": k, "grammar": W} if len(rep.samples) < 5 else None)
        if m["layer"] not in io.TRANSPARENT and not m["field"]:
            Wc = g.Wc
            ok = bool(Wc) and Wc[0]["kind"] == "raw" and Wc[-1]["kind"] == "raw" and Wc[0]["bytes"] >= 8 and Wc[-1]["bytes"] >= 8
            if ok:
                h0, t1 = io.run_word(Wc[0], 0), io.run_word(Wc[0], 4)
                f0, t2 = io.run_word(Wc[-1], Wc[-1]["bytes"] - 8), io.run_word(Wc[-1], Wc[-1]["bytes"] - 4)
                ok = h0 == io.MAGIC_HEADER and f0 == io.MAGIC_FOOTER and t1 is not None and t2 == (t1 + io.FOOTER_DELTA) & 0xFFFFFFFF
                kinds = [x["kind"] for x in Wc]
                nd = kinds.count("delegate")
                ok = ok and nd <= 1 and (nd == 0 or kinds == ["raw", "delegate", "raw"]) and all(k in ("raw", "delegate") for k in kinds)
                if ok:
                    tags.setdefault(t1, set()).add(m["layer"])
            if ok:
                rep.ok("C07.d", k)
            else:
                rep.fail("C07.d", k, file, "stream %s does not follow HDR(tag) payload* DELEGATE? FTR(tag)" % W)
    tags.setdefault(0xAB010000, set()).add("array")
    tags.setdefault(0xAB000000, set()).add("field")
    dup = {t: ls for t, ls in tags.items() if len(ls) > 1}
    if dup:
        t, ls = next(iter(dup.items()))
        rep.fail("C07.c-tags", "tags", io.layer_file(sorted(ls)[0]), "layers %s share tag 0x%08X: a file of one loads as the other" % (sorted(ls), t))
    else:
        rep.ok("C07.c-tags", "tags: %s" % ", ".join("%s=0x%08X" % (sorted(ls)[0], t) for t, ls in sorted(tags.items())))
    io_array.run_c07(rep, tier)
    return gs


def check(tier):
    rep = Report("C07", tier, "other")
    declare(rep)
    io_array.declare_c07(rep)
    gs = run(rep, tier)
    rep.assumptions = ["spec/format_v1.json was generated by tools/freeze_format.py from the pinned revision (after the compile-error repairs, which did not change any byte written) and is never regenerated by a check",
                       "numeric rounding of individual values when narrowing is IEEE round-to-nearest of fptrunc (default mode); not re-derived here"]
    return rep.finish(
        "The on-disk grammar (sequence of header/tag words, payload items with byte counts, delegation, footer words) of every serialisable layer and of field::dump is extracted from optimised IR and compared with a "
        "frozen table of the pinned revision's format; interpolators and the other footprint-free layers must serialise as a bare delegation; tags must be pairwise distinct and streams must nest as header/payload/footer. "
        "Storage-precision independence is decided on the array reader.",
        "bin/vcheck C07 (clang++ -O2 -emit-llvm | build/irdump | engine/rules/io.py; spec/format_v1.json)",
        ["clang 14 -O2 IR faithful to source", "frozen format table spec/format_v1.json", "iostream contract of write/read"])
