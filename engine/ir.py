"""Loop-free LLVM IR -> term graph (gated SSA), plus the abstract domains of
DESIGN section 3 evaluated over those terms.

Nothing is executed and no solver is involved.  A function is read once, in
topological block order; each SSA value becomes a hash-consed term over atoms
(function arguments, loads from argument/sink-result memory, results of
opaque calls).  phi nodes become gamma (select) trees over the branch
conditions that gate their incoming edges.  Functions with a cycle in the CFG
are reported as not loop-free (AnalysisBroken) - never guessed at.
"""
import itertools
import json
import os
import subprocess
from fractions import Fraction

from . import common
from .common import AnalysisBroken

# --------------------------------------------------------------------------
# building IR
# --------------------------------------------------------------------------
CLANG_IR_FLAGS = ["-std=c++20", "-O2", "-g", "-Wno-everything", "-Wno-c++11-narrowing",
                  "-fno-vectorize", "-fno-slp-vectorize", "-ffp-contract=off",
                  "-fno-math-errno",
                  "-mllvm", "-unroll-threshold=1000000", "-mllvm", "-inline-threshold=1000000",
                  "-mllvm", "-unroll-max-count=4096", "-mllvm", "-unroll-full-max-count=4096",
                  "-S", "-emit-llvm"]


def clang_ir(src_path, out_path, extra=(), ndebug=True, opt="-O2"):
    inc = common.mirror()
    flags = [f for f in CLANG_IR_FLAGS]
    flags[flags.index("-O2")] = opt
    cmd = ["clang++"] + flags + (["-DNDEBUG"] if ndebug else ["-UNDEBUG"]) + list(extra) + [
        "-I" + os.path.join(inc, "core"), "-I" + os.path.join(inc, "cpu"), "-I" + common.VERIF_INC,
        src_path, "-o", out_path]
    r = common.run(cmd)
    return r.returncode == 0, r.stderr, cmd


def irdump(ll_path, prefixes=("H_",), callees=False, all_=False):
    tool = os.path.join(common.BUILD, "irdump")
    if not os.path.exists(tool):
        raise AnalysisBroken("build/irdump missing: run MANIFEST.setup_cmd (make -C /verif/engine)")
    cmd = [tool, ll_path]
    for p in prefixes:
        cmd += ["--prefix", p]
    if callees:
        cmd.append("--callees")
    if all_:
        cmd.append("--all")
    r = subprocess.run(cmd, stdout=subprocess.PIPE, stderr=subprocess.PIPE)
    if r.returncode != 0:
        raise AnalysisBroken("irdump failed on %s: %s" % (ll_path, r.stderr.decode()[-300:]))
    return json.loads(r.stdout)


# --------------------------------------------------------------------------
# terms
# --------------------------------------------------------------------------
# A term is a tuple whose head is a string:
#   ('arg', i)                      function argument i (scalar)
#   ('ci', value, bits)             integer constant
#   ('cf', python-float-or-str, ty) floating constant
#   ('undef',) ('poison',)
#   ('op', opcode, ty, a, b)        binary operator
#   ('cast', opcode, ty, a)         conversion
#   ('cmp', pred, a, b)
#   ('sel', c, a, b)
#   ('call', name, n, args...)      result of the n-th opaque call (n orders calls)
#   ('ld', base, off, size, ty, epoch)  load from non-local memory; base = ('arg',i) | ('ret',n) | ('global',name)
#   ('ptr', base, off)              pointer; base as above or ('alloca', id); off int or ('dyn', term)
#   ('vec', elems...)               vector value
#   ('agg', elems...)               aggregate value
#   ('not', a) ('and', a, b) ('or', a, b)  over i1 (path conditions)

TRUE = ('ci', 1, 1)
FALSE = ('ci', 0, 1)


class Term(tuple):
    """a term node that remembers its hash: terms are DAGs with heavy sharing (path conditions, unrolled loops), and a plain
    tuple re-hashes its whole unfolding every time it is used as a dictionary key or set element"""

    def __hash__(self):
        d = self.__dict__
        h = d.get('_h')
        if h is None:
            h = tuple.__hash__(self)
            d['_h'] = h
        return h

    __eq__ = tuple.__eq__
    __ne__ = tuple.__ne__


def T(t):
    return Term(t) if type(t) is tuple else t


def mk_and(a, b):
    if a == TRUE:
        return b
    if b == TRUE:
        return a
    if a == FALSE or b == FALSE:
        return FALSE
    if a is b or a == b:
        return a
    return Term(('and', a, b))


def mk_or(a, b):
    if a == FALSE:
        return b
    if b == FALSE:
        return a
    if a == TRUE or b == TRUE:
        return TRUE
    if a == b:
        return a
    if a == mk_not(b):
        return TRUE
    # (x & c) | (x & !c) -> x
    if a[0] == 'and' and b[0] == 'and':
        for i in (1, 2):
            for j in (1, 2):
                if a[i] == b[j] and a[3 - i] == mk_not(b[3 - j]):
                    return a[i]
    return Term(('or', a, b))


def mk_not(a):
    if a == TRUE:
        return FALSE
    if a == FALSE:
        return TRUE
    if a[0] == 'not':
        return a[1]
    return Term(('not', a))


def fconst(v):
    s = v["v"]
    try:
        return float(s)
    except ValueError:
        return s


class Call:
    def __init__(self, n, name, dname, args, inst, cond):
        self.n = n
        self.name = name
        self.dname = dname
        self.args = args
        self.inst = inst
        self.cond = cond      # path condition under which the call executes


class Store:
    def __init__(self, base, off, size, val, cond, inst):
        self.base, self.off, self.size, self.val, self.cond, self.inst = base, off, size, val, cond, inst
        self.block = inst.get("_bb") if isinstance(inst, dict) else None
        self.seq = None


PURE_INTRINSICS = {
    "llvm.fabs", "llvm.trunc", "llvm.floor", "llvm.ceil", "llvm.rint", "llvm.nearbyint", "llvm.round", "llvm.roundeven",
    "llvm.lrint", "llvm.llrint", "llvm.lround", "llvm.llround", "llvm.sqrt", "llvm.fma", "llvm.fmuladd",
    "llvm.umax", "llvm.umin", "llvm.smax", "llvm.smin", "llvm.abs", "llvm.ctlz", "llvm.cttz", "llvm.ctpop",
    "llvm.x86.bmi.pdep.64", "llvm.x86.bmi.pdep.32", "llvm.x86.bmi.pext.64", "llvm.minnum", "llvm.maxnum", "llvm.copysign",
    "llvm.fshl", "llvm.fshr", "llvm.bswap", "llvm.bitreverse", "llvm.usub.sat", "llvm.uadd.sat",
    "llvm.umul.with.overflow", "llvm.smul.with.overflow", "llvm.uadd.with.overflow", "llvm.sadd.with.overflow",
    "llvm.usub.with.overflow", "llvm.ssub.with.overflow", "llvm.expect", "llvm.is.constant", "llvm.ssub.sat", "llvm.sadd.sat",
}
IGNORED_INTRINSICS = ("llvm.dbg.", "llvm.lifetime.", "llvm.assume", "llvm.experimental.noalias.scope", "llvm.invariant.", "llvm.donothing")
# libm functions clang leaves as calls; they are pure under -fno-math-errno
PURE_LIBM = {"lrintf", "lrint", "lrintl", "llrintf", "llrint", "lroundf", "lround", "llround", "llroundf", "truncf", "trunc", "floorf", "floor",
             "rintf", "rint", "nearbyintf", "nearbyint", "roundf", "round", "ceilf", "ceil", "fabsf", "fabs"}


def intrinsic_base(name):
    # strip the type suffix: llvm.trunc.f32 -> llvm.trunc ; llvm.x86.bmi.pdep.64 stays
    if name.startswith("llvm.x86."):
        return name
    parts = name.split(".")
    while len(parts) > 2 and (parts[-1][:1] in "fivp" and any(ch.isdigit() for ch in parts[-1])):  # f32, i64, v4f32, p0i8
        parts.pop()
    return ".".join(parts)


class Func:
    def __init__(self, j):
        self.j = j
        self.name = j["name"]
        self.args = j["args"]
        self.blocks = j["blocks"]
        self.bid = {b["id"]: b for b in self.blocks}
        self.inst = {}
        for b in self.blocks:
            for i in b["insts"]:
                self.inst[i["id"]] = i
                i["_bb"] = b["id"]

    def succs(self, b):
        t = b["insts"][-1]
        op = t["op"]
        if op == "br":
            return [o["id"] for o in t["ops"] if o["k"] == "bb"]
        if op == "switch":
            return [o["id"] for o in t["ops"] if o["k"] == "bb"]
        if op == "invoke":
            return [t["normal"], t["unwind"]]
        return []

    def acyclic_prefix(self):
        """Blocks not reachable from any block that lies on a cycle, in topological order.
        Used to read facts about the part of a function that precedes its loops."""
        ids = [b["id"] for b in self.blocks]
        succ = {i: self.succs(self.bid[i]) for i in ids}
        # reachability closure (small functions)
        reach = {i: set(succ[i]) for i in ids}
        changed = True
        while changed:
            changed = False
            for i in ids:
                add = set()
                for j in reach[i]:
                    add |= reach[j]
                if not add <= reach[i]:
                    reach[i] |= add
                    changed = True
        cyc = {i for i in ids if i in reach[i]}
        tainted = set(cyc)
        for c in cyc:
            tainted |= reach[c]
        keep = [i for i in ids if i not in tainted]
        # topological order of the kept blocks
        order = []
        seen = set()

        def visit(u):
            if u in seen or u not in keep:
                return
            seen.add(u)
            for v in succ[u]:
                visit(v)
            order.append(u)
        if ids and ids[0] in keep:
            visit(ids[0])
        order.reverse()
        return order

    def topo(self):
        """Topological order of reachable blocks; raises if the CFG has a cycle."""
        entry = self.blocks[0]["id"]
        color = {}
        order = []

        def dfs(u):
            stack = [(u, iter(self.succs(self.bid[u])))]
            color[u] = 1
            while stack:
                node, it = stack[-1]
                adv = False
                for v in it:
                    c = color.get(v, 0)
                    if c == 1:
                        raise AnalysisBroken("function %s is not loop-free (back edge to block %s)" % (self.name, self.bid[v]["name"] or v))
                    if c == 0:
                        color[v] = 1
                        stack.append((v, iter(self.succs(self.bid[v]))))
                        adv = True
                        break
                if not adv:
                    color[node] = 2
                    order.append(node)
                    stack.pop()
        dfs(entry)
        order.reverse()
        return order

    def back_edges(self):
        """(src, dst) edges closing a cycle in a DFS from the entry block, and the DFS-forward order"""
        entry = self.blocks[0]["id"]
        color = {}
        order = []
        back = set()
        stack = [(entry, iter(self.succs(self.bid[entry])))]
        color[entry] = 1
        while stack:
            node, it = stack[-1]
            adv = False
            for v in it:
                c = color.get(v, 0)
                if c == 1:
                    back.add((node, v))
                elif c == 0:
                    color[v] = 1
                    stack.append((v, iter(self.succs(self.bid[v]))))
                    adv = True
                    break
            if not adv:
                color[node] = 2
                order.append(node)
                stack.pop()
        order.reverse()
        return back, order

    def natural_loop(self, latch, header):
        preds = {}
        for b in self.blocks:
            for v in self.succs(b):
                preds.setdefault(v, []).append(b["id"])
        body = {header, latch}
        work = [latch] if latch != header else []
        while work:
            n = work.pop()
            for p in preds.get(n, []):
                if p not in body:
                    body.add(p)
                    work.append(p)
        return body

    def loop_free(self):
        try:
            self.topo()
            return True
        except AnalysisBroken:
            return False


def where(inst):
    """Innermost library source location of an instruction (file:line), following inlining."""
    for l in inst.get("dbg", []) or []:
        f = l.get("file", "")
        if "covfie/" in f:
            return "%s:%d" % (common.repo_rel(f), l["line"])
    d = inst.get("dbg")
    if d:
        return "%s:%d" % (os.path.basename(d[0].get("file", "?")), d[0]["line"])
    return "?"


class Sym:
    """Gated-SSA term construction for one loop-free function."""

    def __init__(self, fn, opaque_prefixes=("_ZN5verif4sink", "_ZN5verif7io_", "verif_"), prefix_only=False, epochs=False, cut_loops=False, forward_args=False):
        self.fn = fn if isinstance(fn, Func) else Func(fn)
        self.forward_args = forward_args
        self.argmem = {}
        self.prefix_only = prefix_only
        self.cut_loops = cut_loops
        self.cut = set()        # back edges that were cut
        self.iv = {}            # phi id -> dict(init=term, header=block id, steps=[(latch cond, term)])
        self.loops = []         # [(header, set(blocks))]
        self.call_block = {}
        self.epochs = epochs
        self.branches = []      # (block condition, branch condition term, inst)
        self.seq = 0
        self.arg_loads = []     # (seq, base, off, size, cond)
        self.atom_bits = {('arg', a["i"]): type_bits(a["ty"]) for a in self.fn.args if type_bits(a["ty"])}
        self.val = {}
        self.calls = []
        self.stores = []        # stores to non-local memory
        self.mem = {}           # (alloca id) -> {off: (size, term)}
        self.ret = None
        self.ret_cond = []      # [(cond, term)]
        self.epoch = 0          # bumped by every opaque call (loads after it are distinct)
        self.unknown = []       # instructions the interpreter could not model
        self.cond = {}
        self.opaque_prefixes = opaque_prefixes
        self.unreachable_conds = []
        self.local_escapes = []
        self._run()

    # ---- operands ----
    def operand(self, o):
        k = o["k"]
        if k == "v":
            return self.val[o["id"]]
        if k == "arg":
            a = self.fn.args[o["i"]]
            if a["ty"].endswith("*"):
                return ('ptr', ('arg', o["i"]), 0)
            return ('arg', o["i"])
        if k == "ci":
            return ('ci', int(o["v"]), o["bits"])
        if k == "cf":
            return ('cf', fconst(o), o["ty"])
        if k in ("undef", "poison"):
            if o["ty"].startswith("<"):
                n = int(o["ty"][1:].split(" x ")[0])
                return ('vec',) + tuple((k,) for _ in range(n))
            return (k,)
        if k == "null":
            return ('ptr', ('null',), 0)
        if k == "global":
            return ('ptr', ('global', o["name"]), 0)
        if k == "fn":
            return ('fnptr', o["name"])
        if k == "zero":
            return ('zero', o["ty"])
        if k == "cexpr":
            ops = [self.operand(x) for x in o["ops"]]
            if o["op"] == "getelementptr" and "off" in o and ops and ops[0][0] == 'ptr':
                return ('ptr', ops[0][1], self._addoff(ops[0][2], o["off"]))
            if o["op"] in ("bitcast", "addrspacecast") and ops:
                return ops[0]
            return ('cexpr', o["op"]) + tuple(ops)
        if k == "cagg":
            return ('vec' if o["ty"].startswith("<") else 'agg',) + tuple(self.operand(x) for x in o["elems"])
        if k == "bb":
            return ('bb', o["id"])
        return ('other', k)

    @staticmethod
    def _addoff(a, b):
        if isinstance(a, int) and isinstance(b, int):
            return a + b
        return ('dyn', a, b)

    # ---- main walk ----
    def _run(self):
        fn = self.fn
        if self.cut_loops:
            self.cut, order = fn.back_edges()
            # a DFS order is topological for the graph without back edges only if it is a reverse postorder: it is
            for (l, h) in self.cut:
                self.loops.append((h, fn.natural_loop(l, h)))
        else:
            order = fn.acyclic_prefix() if self.prefix_only else fn.topo()
        if not order:
            raise AnalysisBroken("function %s has no acyclic prefix" % fn.name)
        entry = order[0]
        # edge conditions
        incoming = {b: [] for b in order}   # b -> [(pred, cond)]
        self.cond[entry] = TRUE
        self.edge_cond = {}
        for b in order:
            conds = incoming[b]
            if b != entry:
                c = FALSE
                for _, ec in conds:
                    c = mk_or(c, ec)
                self.cond[b] = c
            self._block(fn.bid[b], incoming)
        # outputs

    def _block(self, b, incoming):
        bc = self.cond[b["id"]]
        for inst in b["insts"]:
            op = inst["op"]
            if op == "phi":
                self.val[inst["id"]] = T(self._phi(inst, incoming[b["id"]]))
                continue
            ops = inst["ops"]
            if op == "br":
                if len(ops) == 1:
                    self._edge(b["id"], ops[0]["id"], bc, incoming)
                else:
                    c = self.operand(ops[0])
                    self.branches.append((bc, c, inst))
                    # LLVM operand order: cond, false-dest, true-dest
                    self._edge(b["id"], ops[2]["id"], mk_and(bc, c), incoming)
                    self._edge(b["id"], ops[1]["id"], mk_and(bc, mk_not(c)), incoming)
                continue
            if op == "switch":
                v = self.operand(ops[0])
                default = ops[1]["id"]
                dc = bc
                i = 2
                while i + 1 < len(ops):
                    cv = self.operand(ops[i])
                    c = ('cmp', 'eq', v, cv)
                    self._edge(b["id"], ops[i + 1]["id"], mk_and(bc, c), incoming)
                    dc = mk_and(dc, mk_not(c))
                    i += 2
                self._edge(b["id"], default, dc, incoming)
                continue
            if op == "ret":
                if ops:
                    self.ret_cond.append((bc, self.operand(ops[0])))
                else:
                    self.ret_cond.append((bc, None))
                continue
            if op == "unreachable":
                self.unreachable_conds.append((bc, inst))
                continue
            if op == "resume":
                continue
            self.val[inst["id"]] = T(self._inst(inst, bc, b, incoming))

    def _edge(self, src, dst, cond, incoming):
        if (src, dst) in self.cut:
            self.latch_cond = getattr(self, "latch_cond", {})
            self.latch_cond[(src, dst)] = cond
            return
        if dst in incoming:
            incoming[dst].append((src, cond))

    def _phi(self, inst, inc):
        # gamma tree: select over the conditions of the incoming edges
        pairs = []
        hdr = inst["_bb"]
        cut_preds = {l for (l, h) in self.cut if h == hdr}
        if cut_preds and any(pb in cut_preds for pb in inst["incoming"]):
            fwd = [(o, pb) for o, pb in zip(inst["ops"], inst["incoming"]) if pb not in cut_preds]
            init = None
            for o, pb in fwd:
                v = self.operand(o)
                init = v if init is None or init == v else ('sel', ('edge', pb), v, init)
            self.iv[inst["id"]] = {"init": init, "header": hdr, "back": [(o, pb) for o, pb in zip(inst["ops"], inst["incoming"]) if pb in cut_preds]}
            if inst["ty"].endswith("*") and init is not None and init[0] == 'ptr':
                return ('ptr', ('ivptr', inst["id"], init), 0)
            return ('iv', inst["id"], init)
        for o, pb in zip(inst["ops"], inst["incoming"]):
            ec = FALSE
            for (p, c) in inc:
                if p == pb:
                    ec = mk_or(ec, c)
            pairs.append((ec, self.operand(o)))
        # all equal?
        if all(v is pairs[0][1] or v == pairs[0][1] for _, v in pairs):
            return pairs[0][1]
        t = pairs[-1][1]
        for c, v in reversed(pairs[:-1]):
            t = Term(('sel', c, v, t))
        return t

    def _vec_elems(self, v, n, ety):
        if v[0] == 'vec':
            return list(v[1:])
        if v[0] == 'zero':
            z = ('cf', 0.0, ety) if not ety.startswith('i') else ('ci', 0, int(ety[1:]))
            return [z] * n
        return None

    def _inst(self, inst, bc, b, incoming):
        op = inst["op"]
        ops = inst["ops"]
        ty = inst["ty"]
        if ty.startswith("<") and op in ("add", "sub", "mul", "shl", "lshr", "ashr", "and", "or", "xor", "fadd", "fsub", "fmul", "fdiv",
                                         "fneg", "zext", "sext", "trunc", "fptoui", "fptosi", "uitofp", "sitofp", "fpext", "fptrunc", "select", "icmp", "fcmp"):
            n = int(ty[1:].split(" x ")[0])
            ety = ty.split(" x ")[1].rstrip(">")
            vals = [self.operand(o) for o in ops]
            cols = []
            for v, o in zip(vals, ops):
                oty = o.get("ty", "")
                if oty.startswith("<"):
                    e = self._vec_elems(v, n, oty.split(" x ")[1].rstrip(">"))
                    if e is None:
                        cols = None
                        break
                    cols.append(e)
                else:
                    cols.append([v] * n)
            if cols is not None:
                out = []
                for i in range(n):
                    fake = dict(inst)
                    fake["ty"] = ety
                    out.append(self._scalar(fake, [c[i] for c in cols], bc))
                return ('vec',) + tuple(out)
        return self._inst2(inst, bc, b, incoming)

    def _scalar(self, inst, vals, bc):
        """scalar semantics of an elementwise instruction applied to already-evaluated operands"""
        op = inst["op"]
        ty = inst["ty"]
        if op in ("icmp", "fcmp"):
            return ('cmp', inst["pred"], vals[0], vals[1])
        if op == "select":
            c, x, y = vals
            if c == TRUE:
                return x
            if c == FALSE:
                return y
            return x if x == y else ('sel', c, x, y)
        if op == "fneg":
            return ('op', 'fsub', ty, ('cf', -0.0, ty), vals[0])
        if op in ("zext", "sext", "trunc", "fptoui", "fptosi", "uitofp", "sitofp", "fpext", "fptrunc"):
            return ('cast', op, ty, vals[0])
        return ('op', op, ty, vals[0], vals[1])

    def _inst2(self, inst, bc, b, incoming):
        op = inst["op"]
        ops = inst["ops"]
        ty = inst["ty"]
        if op in ("add", "sub", "mul", "shl", "lshr", "ashr", "and", "or", "xor", "udiv", "sdiv", "urem", "srem",
                  "fadd", "fsub", "fmul", "fdiv", "frem"):
            a, c = self.operand(ops[0]), self.operand(ops[1])
            if ty == "i1" and op in ("and", "or", "xor"):
                if op == "and":
                    return mk_and(a, c)
                if op == "or":
                    return mk_or(a, c)
                if c == TRUE:
                    return mk_not(a)
                if a == TRUE:
                    return mk_not(c)
            return ('op', op, ty, a, c)
        if op == "fneg":
            return ('op', 'fsub', ty, ('cf', -0.0, ty), self.operand(ops[0]))
        if op in ("zext", "sext", "trunc", "fptoui", "fptosi", "uitofp", "sitofp", "fpext", "fptrunc"):
            return ('cast', op, ty, self.operand(ops[0]))
        if op in ("bitcast", "addrspacecast"):
            a = self.operand(ops[0])
            if a[0] == 'ptr' or ty.endswith('*'):
                return a
            if a[0] == 'cast' and a[1] == 'bitcast' and term_type(a[3]) == ty:
                return a[3]
            return ('cast', 'bitcast', ty, a)
        if op == "ptrtoint":
            return ('cast', 'ptrtoint', ty, self.operand(ops[0]))
        if op == "inttoptr":
            return ('ptr', ('int', self.operand(ops[0])), 0)
        if op in ("icmp", "fcmp"):
            return ('cmp', inst["pred"], self.operand(ops[0]), self.operand(ops[1]))
        if op == "select":
            c, x, y = (self.operand(o) for o in ops)
            if c == TRUE:
                return x
            if c == FALSE:
                return y
            if x == y:
                return x
            if ty == "i1":
                # boolean select is and/or
                if y == FALSE:
                    return mk_and(c, x)
                if x == TRUE:
                    return mk_or(c, y)
            return ('sel', c, x, y)
        if op == "freeze":
            return self.operand(ops[0])
        if op == "alloca":
            self.mem[inst["id"]] = {}
            self.alloca_size = getattr(self, "alloca_size", {})
            self.alloca_size[inst["id"]] = inst.get("alloc_size")
            return ('ptr', ('alloca', inst["id"]), 0)
        if op == "getelementptr":
            p = self.operand(ops[0])
            if p[0] == 'sel':
                return self._map_sel(p, lambda q: self._gep(inst, q, ops))
            return self._gep(inst, p, ops)
        if op == "load":
            p = self.operand(ops[0])
            if p[0] == 'sel':
                return self._map_sel(p, lambda q: self._load(inst, q, bc))
            return self._load(inst, p, bc)
        if op == "__gep_old__":
            p = self.operand(ops[0])
            if p[0] != 'ptr':
                self.unknown.append(inst)
                return ('unk', inst["id"])
            if "off" in inst:
                return ('ptr', p[1], self._addoff(p[2], inst["off"]))
            # variable index: keep symbolic (scale * index terms)
            terms = []
            const = 0
            for sc, o in zip(inst["scales"], ops[1:]):
                if sc.get("struct"):
                    const += sc.get("off", 0)
                else:
                    ix = self.operand(o)
                    if ix[0] == 'ci':
                        v = ix[1]
                        if v >= 1 << (ix[2] - 1):
                            v -= 1 << ix[2]
                        const += v * sc["scale"]
                    else:
                        terms.append((sc["scale"], ix))
            return ('ptr', p[1], ('dyn', self._addoff(p[2], const), tuple(terms)))
        if op == "load":
            return self._load(inst, self.operand(ops[0]), bc)
        if op == "store":
            self._store(inst, self.operand(ops[0]), self.operand(ops[1]), bc)
            return None
        if op == "extractelement":
            v, ix = self.operand(ops[0]), self.operand(ops[1])
            if ix[0] == 'ci':
                return self._map_sel(v, lambda x: x[1 + ix[1]] if x[0] == 'vec' else ('extractelement', x, ix))
            return ('extractelement', v, ix)
        if op == "insertelement":
            v, e, ix = (self.operand(o) for o in ops)
            if v[0] == 'vec' and ix[0] == 'ci':
                l = list(v)
                l[1 + ix[1]] = e
                return tuple(l)
            return ('insertelement', v, e, ix)
        if op == "shufflevector":
            a, c = self.operand(ops[0]), self.operand(ops[1])
            if a[0] == 'vec' and (c[0] == 'vec'):
                n = len(a) - 1
                out = []
                for m in inst["mask"]:
                    if m < 0:
                        out.append(('undef',))
                    elif m < n:
                        out.append(a[1 + m])
                    else:
                        out.append(c[1 + m - n])
                return ('vec',) + tuple(out)
            return ('shuffle', a, c, tuple(inst["mask"]))
        if op == "extractvalue":
            v = self.operand(ops[0])
            for i in inst["indices"]:
                if v[0] in ('agg', 'vec') and 1 + i < len(v):
                    v = v[1 + i]
                elif v[0] == 'aggcall':
                    v = ('aggelem', v, i)
                else:
                    v = ('extractvalue', v, i)
            return v
        if op == "insertvalue":
            v, e = self.operand(ops[0]), self.operand(ops[1])
            return ('insertvalue', v, e, tuple(inst["indices"]))
        if op in ("call", "invoke"):
            r = self._call(inst, bc)
            if op == "invoke":
                self._edge(b["id"], inst["normal"], bc, incoming)
                self._edge(b["id"], inst["unwind"], FALSE, incoming)  # unwinding is not a normal path
            return r
        if op == "landingpad":
            return ('landingpad',)
        self.unknown.append(inst)
        return ('unk', inst["id"])

    # ---- memory ----
    def _map_sel(self, p, f):
        if p[0] == 'sel':
            return ('sel', p[1], self._map_sel(p[2], f), self._map_sel(p[3], f))
        return f(p)

    def _gep(self, inst, p, ops):
        if p[0] in ('ld', 'wr', 'call', 'arg', 'fn'):
            p = ('ptr', ('mem', p), 0)
        if p[0] != 'ptr':
            self.unknown.append(inst)
            return ('unk', inst["id"])
        if "off" in inst:
            return ('ptr', p[1], self._addoff(p[2], inst["off"]))
        const = 0
        terms = []
        for sc, o in zip(inst["scales"], ops[1:]):
            if sc.get("struct"):
                const += sc.get("off", 0)
            else:
                ix = self.operand(o)
                if ix[0] == 'ci':
                    v = ix[1]
                    if v >= 1 << (ix[2] - 1):
                        v -= 1 << ix[2]
                    const += v * sc["scale"]
                else:
                    terms.append((sc["scale"], ix))
        return ('ptr', p[1], ('dyn', self._addoff(p[2], const), tuple(terms)))

    def _load(self, inst, p, bc):
        ty = inst["ty"]
        size = inst["size"]
        if p[0] in ('ld', 'wr', 'call', 'arg', 'fn'):
            p = ('ptr', ('mem', p), 0)
        if p[0] != 'ptr':
            self.unknown.append(inst)
            return ('unk', inst["id"])
        base, off = p[1], p[2]
        if base[0] == 'alloca':
            m = self.mem[base[1]]
            if isinstance(off, int):
                if ty.startswith("<"):
                    n = int(ty[1:].split(" x ")[0])
                    es = size // n
                    elems = []
                    ety = ty.split(" x ")[1].rstrip(">")
                    for i in range(n):
                        e = m.get(off + i * es)
                        if e and e[0] == es:
                            elems.append(e[1] if term_type(e[1]) in (None, ety) else retype(e[1], ety))
                            continue
                        r = None
                        for o, (s0, v0) in m.items():
                            if isinstance(o, int) and o <= off + i * es and off + (i + 1) * es <= o + s0 and v0 is not None:
                                r = subword(v0, s0, off + i * es - o, es, ety)
                                break
                            if isinstance(o, tuple) and o[0] == 'region' and v0[3] is not None and (o[1] is None or (o[1] <= off + i * es and off + (i + 1) * es <= o[1] + o[2])):
                                r = ('wr', v0[1], v0[2], off + i * es - v0[3], es, ety)
                        elems.append(r if r is not None else ('ldlocal', base[1], off + i * es, es, ()))
                    return ('vec',) + tuple(elems)
                e = m.get(off)
                if e and e[0] == size:
                    v = e[1]
                    return v
                if e is None:
                    for k_, (n_, v_) in m.items():
                        if isinstance(k_, tuple) and k_[0] == 'memcpy' and v_[0] == 'ldblk' and k_[1] <= off and off + size <= k_[1] + k_[2] and isinstance(v_[2], int):
                            return ('ld', v_[1], v_[2] + off - k_[1], size, ty, self._ep(v_[1]))
                if e is None and not any(isinstance(o, int) and o < off + size and o + s0 > off for o, (s0, _) in m.items()):
                    best = None
                    for k, (sz, v) in m.items():
                        if isinstance(k, tuple) and k[0] == 'region':
                            if k[1] is None or (k[1] <= off and off + size <= k[1] + k[2]):
                                if best is None or k[3] > best[0]:
                                    best = (k[3], v)
                    if best is not None:
                        w = best[1]
                        if w[3] is not None:
                            return ('wr', w[1], w[2], off - w[3], size, ty)
                        return ('wr', w[1], w[2], None, size, ty)
                if e is None and not any(isinstance(o, int) and o < off + size and o + s > off for o, (s, _) in m.items()):
                    if any(not isinstance(o, int) for o in m):
                        return ('ldlocal', base[1], off, size, ())
                    return ('undef',)   # read of never-written local memory
                # a wider (or differently typed) store covers the bytes: extract them bitwise
                for o, (s0, v0) in m.items():
                    if isinstance(o, int) and o <= off and off + size <= o + s0 and v0 is not None:
                        r = subword(v0, s0, off - o, size, ty)
                        if r is not None:
                            return r
                # partial overlap: give up on this value only
                return ('ldlocal', base[1], off, size, tuple(sorted(((o, s) for o, (s, _) in m.items()), key=repr)))
            return ('lddyn', base[1], off, tuple(sorted(((o, v[1]) for o, v in m.items()), key=repr)))
        self.seq += 1
        self.arg_loads.append((self.seq, base, off, size, bc))
        if self.forward_args and (base, off, size) in self.argmem:
            sc, sv = self.argmem[(base, off, size)]
            if sc == TRUE or sc in common_lits(bc) or all(l in common_lits(bc) for l in common_lits(sc)):
                return sv
            return ('sel', sc, sv, ('ld', base, off, size, ty, self._ep(base)))
        if ty.startswith("<"):
            n = int(ty[1:].split(" x ")[0])
            es = size // n
            ety = ty.split(" x ")[1].rstrip(">")
            return ('vec',) + tuple(('ld', base, self._addoff(off, i * es), es, ety, self._ep(base)) for i in range(n))
        return ('ld', base, off, size, ty, self._ep(base))

    def _ep(self, base):
        # with epochs=True a load from non-local memory is tagged with the number of opaque calls made so
        # far (an opaque callee may have changed that memory); lookups never write non-local memory, so
        # there the tag stays 0 and equal addresses mean equal values
        return len(self.calls) if self.epochs else 0

    def _store(self, inst, v, p, bc):
        if p[0] in ('ld', 'wr', 'call', 'arg', 'fn'):
            p = ('ptr', ('mem', p), 0)
        if p[0] != 'ptr':
            self.unknown.append(inst)
            return
        base, off = p[1], p[2]
        size = inst["size"]
        if v is not None and v[0] == 'ptr' and v[1][0] == 'alloca' and base[0] != 'alloca':
            self.local_escapes.append(inst)
        if base[0] == 'alloca':
            m = self.mem[base[1]]
            if not isinstance(off, int):
                m[('dyn', off)] = (size, v)
                return
            if v[0] == 'vec':
                n = len(v) - 1
                es = size // n
                for i in range(n):
                    m[off + i * es] = (es, v[1 + i])
                return
            # conditional store (bc != entry cond): merge with previous content
            old = m.get(off)
            if bc != TRUE and old is not None and old[0] == size:
                v = ('sel', bc, v, old[1])
            elif bc != TRUE and old is None:
                v = ('sel', bc, v, ('undef',))
            # drop overlapped entries
            for o in [o for o, (s, _) in m.items() if isinstance(o, int) and o != off and o < off + size and o + s > off]:
                del m[o]
            m[off] = (size, v)
            return
        if v[0] == 'vec':
            n = len(v) - 1
            es = size // n
            for i in range(n):
                self.stores.append(Store(base, self._addoff(off, i * es), es, v[1 + i], bc, inst))
            return
        st = Store(base, off, size, v, bc, inst)
        self.seq += 1
        st.seq = self.seq
        self.stores.append(st)
        if self.forward_args and base[0] == 'arg' and isinstance(off, int):
            self.argmem[(base, off, size)] = (bc, v)

    # ---- calls ----
    def _call(self, inst, bc):
        name = inst.get("callee")
        ops = inst["ops"]
        nargs = inst.get("nargs", len(ops) - 1)
        args = tuple(self.operand(o) for o in ops[:nargs])
        if name is None:
            self.unknown.append(inst)
            c = Call(len(self.calls), None, None, args, inst, bc)
            self.calls.append(c)
            return ('call', None, c.n) + args
        if name.startswith(IGNORED_INTRINSICS):
            return None
        if name.startswith("llvm.memcpy") or name.startswith("llvm.memmove"):
            self._memcpy(inst, args, bc)
            return None
        if name.startswith("llvm.memset"):
            self._memset(inst, args, bc)
            return None
        base = intrinsic_base(name) if name.startswith("llvm.") else name
        if base in PURE_INTRINSICS or base in PURE_LIBM:
            rty = inst["ty"]
            if rty.startswith("<") and all(a[0] == 'vec' for a in args):
                n = len(args[0]) - 1
                ety = rty.split(" x ")[1].rstrip(">")
                return ('vec',) + tuple(('fn', base, ety) + tuple(a[1 + i] for a in args) for i in range(n))
            return ('fn', base, rty) + args
        c = Call(len(self.calls), name, inst.get("dcallee"), args, inst, bc)
        self.calls.append(c)
        c.block = inst["_bb"]
        self.seq += 1
        c.seq = self.seq
        # arguments that are local pointers: remember what the callee can read there, and that it may write them
        c.snap = {}
        for ai, a in enumerate(args):
            if a[0] == 'ptr' and a[1][0] == 'alloca':
                c.snap[ai] = dict(self.mem[a[1][1]])
                if name == "_ZNSo5writeEPKcl":
                    continue        # std::ostream::write only reads [ptr, ptr+n)
                if name == "_ZNSi4readEPcl" and ai == 1 and args[2][0] == 'ci':
                    self._clobber(a[1][1], a[2], c, ai, args[2][1])   # std::istream::read writes exactly [ptr, ptr+n)
                    continue
                self._clobber(a[1][1], a[2], c, ai)
        if inst["ty"].endswith("*"):
            return ('ptr', ('ret', c.n), 0)
        return ('call', name, c.n) + args

    def _clobber(self, aid, off, c, ai, length=None):
        """an opaque callee received a pointer into local object aid.  Bytes [off, off+length) (the whole
        object when length is None) now hold data produced by that call: 'wr' atoms addressed relative to
        the pointer that was passed."""
        m = self.mem[aid]
        if not isinstance(off, int):
            length = None
        for k in list(m.keys()):
            if isinstance(k, int):
                sz = m[k][0]
                if length is None or (k < off + length and k + sz > off):
                    del m[k]
            elif length is None:
                del m[k]
        m[('region', off if length is not None else None, length, c.n)] = (length or 0, ('wrbase', c.n, ai, off if isinstance(off, int) else None))

    def _memcpy(self, inst, args, bc):
        dst, src, n = args[0], args[1], args[2]
        if dst[0] == 'sel' or src[0] == 'sel':
            # pointer chosen on a path condition: one conditional copy per alternative
            def leaves(p, cond):
                if p[0] == 'sel':
                    return leaves(p[2], mk_and(cond, p[1])) + leaves(p[3], mk_and(cond, mk_not(p[1])))
                return [(cond, p)]
            for dc, dp in leaves(dst, TRUE):
                for sc, sp in leaves(src, TRUE):
                    c2 = mk_and(bc, mk_and(dc, sc))
                    if c2 != FALSE:
                        self._memcpy(inst, (dp, sp, n), c2)
            return
        if src[0] in ('ld', 'wr', 'call'):
            src = ('ptr', ('mem', src), 0)
        if dst[0] in ('ld', 'wr', 'call'):
            dst = ('ptr', ('mem', dst), 0)
        if dst[0] == 'ptr' and src[0] == 'ptr' and n[0] != 'ci' and dst[1][0] != 'alloca':
            st = Store(dst[1], dst[2], n, ('blk', src), bc, inst)
            self.seq += 1
            st.seq = self.seq
            self.stores.append(st)
            return
        if n[0] != 'ci' or dst[0] != 'ptr' or src[0] != 'ptr':
            self.unknown.append(inst)
            return
        n = n[1]
        if dst[1][0] == 'alloca' and isinstance(dst[2], int) and isinstance(src[2], int):
            dm = self.mem[dst[1][1]]
            if src[1][0] == 'alloca':
                sm = self.mem[src[1][1]]
                for o, (s, v) in list(sm.items()):
                    if isinstance(o, int) and src[2] <= o and o + s <= src[2] + n:
                        dm[dst[2] + o - src[2]] = (s, v)
            else:
                dm[('memcpy', dst[2], n)] = (n, ('ldblk', src[1], src[2], n))
            return
        if dst[1][0] != 'alloca':
            st = Store(dst[1], dst[2], n, ('blk', src), bc, inst)
            self.seq += 1
            st.seq = self.seq
            self.stores.append(st)
            return
        self.unknown.append(inst)

    def _memset(self, inst, args, bc):
        dst, v, n = args[0], args[1], args[2]
        if dst[0] == 'ld':
            dst = ('ptr', ('mem', dst), 0)          # a pointer loaded from memory (m_ptr.get())
        if dst[0] == 'ptr' and dst[1][0] == 'alloca' and n[0] == 'ci' and v[0] == 'ci' and isinstance(dst[2], int):
            self.mem[dst[1][1]][('memset', dst[2], n[1])] = (n[1], ('ci', v[1], 8))
            return
        if dst[0] == 'ptr' and dst[1][0] != 'alloca':
            self.stores.append(Store(dst[1], dst[2], n[1] if n[0] == 'ci' else n, ('memset', v), bc, inst))
            return
        self.unknown.append(inst)

    # ---- results ----
    def outputs(self, argi, esize=None, ety=None):
        """Stores through pointer argument argi: {offset: term} (gated on path conditions).
        With esize/ety, zero-memsets are expanded into per-element zero constants."""
        out = {}
        stores = []
        for s in self.stores:
            if s.base == ('arg', argi) and isinstance(s.off, int) and isinstance(s.val, tuple) and s.val[0] == 'memset' and esize \
                    and s.val[1] == ('ci', 0, 8) and isinstance(s.size, int):
                z = ('cf', 0.0, ety) if not ety.startswith('i') else ('ci', 0, esize * 8)
                for o in range(s.off, s.off + s.size, esize):
                    stores.append(Store(s.base, o, esize, z, s.cond, s.inst))
            else:
                stores.append(s)
        for s in stores:
            if s.base == ('arg', argi) and isinstance(s.off, int):
                v = s.val
                if s.off in out and s.cond != TRUE:
                    v = ('sel', s.cond, v, out[s.off])
                elif s.cond != TRUE and s.off not in out:
                    v = ('sel', s.cond, v, ('undef',))
                out[s.off] = v
        return out

    def retval(self):
        pairs = [(c, v) for c, v in self.ret_cond]
        if not pairs:
            return None
        t = pairs[-1][1]
        for c, v in reversed(pairs[:-1]):
            t = Term(('sel', c, v, t))
        return t

    def iv_step(self, phi_id):
        """terms flowing around the back edge(s) into an induction phi (available after the walk)"""
        out = []
        for o, pb in self.iv[phi_id]["back"]:
            try:
                out.append(self.operand(o))
            except KeyError:
                out.append(None)
        return out

    def in_loop(self, block):
        return [h for h, body in self.loops if block in body]

    def opaque_calls(self, prefix=None):
        return [c for c in self.calls if c.name and (prefix is None or c.name.startswith(prefix))]


# --------------------------------------------------------------------------
# term utilities
# --------------------------------------------------------------------------
def term_type(t):
    h = t[0]
    if h in ('op', 'cast', 'fn'):
        return t[2]
    if h == 'ci':
        return 'i%d' % t[2]
    if h == 'cf':
        return t[2]
    if h == 'ld':
        return t[4]
    return None


def type_bits(ty):
    if ty is None:
        return None
    if ty.startswith('i') and ty[1:].isdigit():
        return int(ty[1:])
    return {'float': 32, 'double': 64, 'half': 16}.get(ty)


def retype(v, ty):
    """Reinterpret the bits of v as type ty (same size)."""
    vt = term_type(v)
    if vt == ty:
        return v
    if v[0] == 'cast' and v[1] == 'bitcast' and term_type(v[3]) in (ty, None):
        return v[3]
    return ('cast', 'bitcast', ty, v)


def subword(v0, s0, delta, size, ty):
    """Bytes [delta, delta+size) of the s0-byte value v0, as a value of type ty;
    resolved through bit provenance when v0 packs several scalars."""
    if v0[0] == 'vec' or v0[0] in ('agg', 'zero', 'blk', 'ldblk'):
        return None
    w0 = s0 * 8
    iv = v0
    vt = term_type(v0)
    if vt is not None and not vt.startswith('i'):
        iv = ('cast', 'bitcast', 'i%d' % w0, v0)
    elif vt is None:
        if v0[0] == 'arg' and size == s0:
            return v0
        return None
    bits = to_bits(iv, w0)[delta * 8:(delta + size) * 8]
    w = size * 8
    if all(isinstance(b, tuple) and b[0] == 'in' for b in bits):
        a = bits[0][1]
        if all(b[1] == a and b[2] == i for i, b in enumerate(bits)):
            aw = type_bits(term_type(a)) or (w if a[0] in ('arg', 'ld') else None)
            if aw == w:
                return retype(a, ty) if term_type(a) else a
    if all(b == 0 for b in bits):
        return ('cf', 0.0, ty) if not ty.startswith('i') else ('ci', 0, w)
    r = ('cast', 'trunc', 'i%d' % w, ('op', 'lshr', 'i%d' % w0, iv, ('ci', delta * 8, w0))) if (delta or size != s0) else iv
    return retype(r, ty)


def walk(t, f, seen=None):
    if seen is None:
        seen = set()
    if not isinstance(t, tuple) or id(t) in seen or not t:
        return
    seen.add(id(t))
    if isinstance(t[0], str):
        f(t)
        rest = t[1:]
    else:
        rest = t
    for x in rest:
        if isinstance(x, tuple):
            walk(x, f, seen)


def restrict(t, lit, truth, memo=None):
    """simplify a term under the assumption that condition `lit` has the given truth value"""
    if memo is None:
        memo = {}
    if not isinstance(t, tuple):
        return t
    k = (id(t), truth)
    if k in memo:
        return memo[k]
    if t == lit:
        r = TRUE if truth else FALSE
    elif t[0] == 'not':
        r = mk_not(restrict(t[1], lit, truth, memo))
    elif t[0] == 'and':
        r = mk_and(restrict(t[1], lit, truth, memo), restrict(t[2], lit, truth, memo))
    elif t[0] == 'or':
        r = mk_or(restrict(t[1], lit, truth, memo), restrict(t[2], lit, truth, memo))
    elif t[0] == 'sel':
        c = restrict(t[1], lit, truth, memo)
        if c == TRUE:
            r = restrict(t[2], lit, truth, memo)
        elif c == FALSE:
            r = restrict(t[3], lit, truth, memo)
        else:
            a, b = restrict(t[2], lit, truth, memo), restrict(t[3], lit, truth, memo)
            r = a if a == b else ('sel', c, a, b)
    else:
        r = t
    memo[k] = r
    return r


def ungate(t):
    """strip the path-condition gating that Sym.outputs() puts around conditionally executed stores"""
    while isinstance(t, tuple) and t[0] == 'sel' and t[3] == ('undef',):
        t = t[2]
    return t


def common_lits(c, memo=None):
    """literals that hold on every path described by a path condition (and = union, or = intersection)"""
    if memo is None:
        memo = {}
    k = id(c)
    if k in memo:
        return memo[k]
    if isinstance(c, tuple) and c[0] == 'and':
        r = common_lits(c[1], memo) | common_lits(c[2], memo)
    elif isinstance(c, tuple) and c[0] == 'or':
        r = (common_lits(c[1], memo) & common_lits(c[2], memo)) | frozenset([c])
    else:
        r = frozenset([c])
    memo[k] = r
    return r


def occurs_positive(c, target, seen=None):
    """does literal `target` occur as a conjunct/disjunct of the path condition c (i.e. some path through it takes that edge)?"""
    if seen is None:
        seen = set()
    if id(c) in seen:
        return False
    seen.add(id(c))
    if c == target:
        return True
    if isinstance(c, tuple) and c[0] in ('and', 'or'):
        return occurs_positive(c[1], target, seen) or occurs_positive(c[2], target, seen)
    return False


def flatten_and(c):
    """the literals of a (nested) conjunction"""
    out = []
    stack = [c]
    while stack:
        x = stack.pop()
        if isinstance(x, tuple) and x[0] == 'and':
            stack.append(x[1])
            stack.append(x[2])
        else:
            out.append(x)
    return out


def atoms(t):
    """D-dep: the set of atoms a term may depend on."""
    out = set()

    def f(x):
        if x[0] == 'wr':
            out.add(x)
        if x[0] == 'iv':
            out.add(('iv', x[1]))
        if x[0] == 'arg':
            out.add(x)
        elif x[0] == 'ld':
            out.add(x)
        elif x[0] == 'call':
            out.add(('call', x[1], x[2]))
        elif x[0] in ('undef', 'poison'):
            out.add(x)
        elif x[0] in ('unk', 'ldlocal', 'lddyn', 'ldblk'):
            out.add(('unk',))
    walk(t, f)
    return out


def has_undef(t):
    return any(a[0] in ('undef', 'poison') for a in atoms(t))


def fp_casts(t, top=True, out=None, seen=None):
    """floating-point precision changes inside a term: [(cast node, is_outermost, operand)]"""
    if out is None:
        out, seen = [], set()
    if not isinstance(t, tuple) or id(t) in seen:
        return out
    seen.add(id(t))
    if t[0] == 'cast' and t[1] in ('fptrunc', 'fpext'):
        out.append((t, top, t[3]))
    for x in t[1:]:
        if isinstance(x, tuple):
            fp_casts(x, False, out, seen)
    return out


def strip_casts(t, kinds=("zext", "sext", "trunc", "bitcast")):
    while isinstance(t, tuple) and t[0] == 'cast' and t[1] in kinds:
        t = t[3]
    return t


def show(t, names=None, depth=0):
    """Readable rendering of a term."""
    names = names or {}
    if not isinstance(t, tuple):
        return str(t)
    if not t:
        return "()"
    if not isinstance(t[0], str):
        return "(" + ", ".join(show(x, names, depth + 1) for x in t) + ")"
    if t in names:
        return names[t]
    h = t[0]
    if depth > 12:
        return "..."
    if h == 'arg':
        return "a%d" % t[1]
    if h == 'ci':
        return str(t[1])
    if h == 'cf':
        return str(t[1])
    if h == 'op':
        return "(%s %s %s)" % (show(t[3], names, depth + 1), t[1], show(t[4], names, depth + 1))
    if h == 'cast':
        return "%s(%s)" % (t[1], show(t[3], names, depth + 1))
    if h == 'cmp':
        return "(%s %s %s)" % (show(t[2], names, depth + 1), t[1], show(t[3], names, depth + 1))
    if h == 'sel':
        return "(%s ? %s : %s)" % (show(t[1], names, depth + 1), show(t[2], names, depth + 1), show(t[3], names, depth + 1))
    if h == 'ld':
        return "[%s+%s]" % (show(t[1], names, depth + 1), t[2])
    if h == 'ret':
        return "P%d" % t[1]
    if h == 'fn':
        return "%s(%s)" % (t[1], ", ".join(show(x, names, depth + 1) for x in t[3:]))
    if h == 'call':
        return "call#%d" % t[2]
    if h in ('not',):
        return "!%s" % show(t[1], names, depth + 1)
    if h == 'wr':
        return "rd#%d[%s:%s]" % (t[1], t[3], t[4])
    if h == 'iv':
        return "iv%d" % t[1]
    if len(t) == 1:
        return h
    if h in ('and', 'or'):
        return "(%s %s %s)" % (show(t[1], names, depth + 1), h, show(t[2], names, depth + 1))
    return "%s(%s)" % (h, ", ".join(show(x, names, depth + 1) for x in t[1:]))


# --------------------------------------------------------------------------
# D-ord: evaluation over order types
# --------------------------------------------------------------------------
def weak_orderings(n):
    """All weak orderings of n items as rank tuples (ordered set partitions)."""
    if n == 0:
        yield ()
        return
    seen = set()

    def rec(i, ranks, maxr):
        if i == n:
            # normalise: ranks must be a surjection onto 0..k
            ks = sorted(set(ranks))
            m = {k: j for j, k in enumerate(ks)}
            r = tuple(m[x] for x in ranks)
            if r not in seen:
                seen.add(r)
                yield r
            return
        for r in range(0, 2 * n + 1):
            yield from rec(i + 1, ranks + [r], max(maxr, r))

    # simple generation: assign each item a rank in 0..n-1, normalise, dedupe
    import itertools
    for ranks in itertools.product(range(n), repeat=n):
        ks = sorted(set(ranks))
        if ks != list(range(len(ks))):
            continue
        if ranks not in seen:
            seen.add(ranks)
            yield ranks


class OrdEval:
    """Evaluate a term whose leaves are atoms and whose inner nodes are
    comparisons, selects, min/max and boolean connectives, under a given weak
    ordering of the atoms.  Values are atoms (identity kept), conditions are
    booleans.  Anything else is 'not order-evaluable' (returns None)."""

    SIGNED = {"slt": lambda a, b: a < b, "sle": lambda a, b: a <= b, "sgt": lambda a, b: a > b, "sge": lambda a, b: a >= b}
    UNSIGNED = {"ult": lambda a, b: a < b, "ule": lambda a, b: a <= b, "ugt": lambda a, b: a > b, "uge": lambda a, b: a >= b}
    FLOAT = {"olt": lambda a, b: a < b, "ole": lambda a, b: a <= b, "ogt": lambda a, b: a > b, "oge": lambda a, b: a >= b,
             "oeq": lambda a, b: a == b, "one": lambda a, b: a != b,
             "ult": lambda a, b: a < b, "ule": lambda a, b: a <= b, "ugt": lambda a, b: a > b, "uge": lambda a, b: a >= b,
             "ueq": lambda a, b: a == b, "une": lambda a, b: a != b,
             # NaN is outside every property that uses this domain: ordered is true, unordered is false
             "ord": lambda a, b: True, "uno": lambda a, b: False}
    EQ = {"eq": lambda a, b: a == b, "ne": lambda a, b: a != b}

    def __init__(self, rank, kind, inf=None):
        self.rank = rank       # atom term -> rank
        self.kind = kind       # 'signed' | 'unsigned' | 'float'
        self.inf = inf or {}   # atom term -> +1 / -1: atoms assumed to BE +inf / -inf in this evaluation (float kind)
        self.preds_seen = set()
        self.bad_pred = []

    def rank_of(self, a):
        """rank of an atom, or of a constant that is an extreme of the coordinate type (extremes are just orderings)"""
        if a in self.inf:
            return 10 ** 6 * self.inf[a]
        if a in self.rank:
            return self.rank[a]
        if a[0] == 'ci':
            v, bits = a[1], a[2]
            if self.kind == 'unsigned':
                return 10 ** 6 if v == (1 << bits) - 1 else (-10 ** 6 if v == 0 else None)
            if self.kind == 'signed':
                return 10 ** 6 if v == (1 << (bits - 1)) - 1 else (-10 ** 6 if v == (1 << (bits - 1)) else None)
        if a[0] == 'cf':
            v = a[1]
            if isinstance(v, float):
                if v >= 3.4e38:
                    return 10 ** 6
                if v <= -3.4e38:
                    return -10 ** 6
            elif isinstance(v, str):
                return -10 ** 6 if v.startswith('-') else 10 ** 6
        return None

    def value(self, t):
        if t in self.rank:
            return t
        h = t[0]
        if h == 'sel':
            c = self.cond(t[1])
            if c is None:
                return None
            return self.value(t[2] if c else t[3])
        if h == 'fn' and t[1] in ("llvm.umax", "llvm.umin", "llvm.smax", "llvm.smin", "llvm.minnum", "llvm.maxnum"):
            a, b = self.value(t[3]), self.value(t[4])
            if a is None or b is None:
                return None
            k = t[1].split(".")[1]
            need = {'umax': 'unsigned', 'umin': 'unsigned', 'smax': 'signed', 'smin': 'signed', 'minnum': 'float', 'maxnum': 'float'}[k]
            if need != self.kind:
                self.bad_pred.append(k)
            if a not in self.rank or b not in self.rank:
                return None
            if 'max' in k:
                return a if self.rank[a] >= self.rank[b] else b
            return a if self.rank[a] <= self.rank[b] else b
        if h in ('ci', 'cf'):
            return t
        return None

    def num(self, t):
        """integer value of arithmetic over truth values and constants (zext/sext of a condition, sums, bitwise ops, selects)"""
        h = t[0]
        if h == 'ci':
            return t[1]
        if h == 'cast' and t[1] in ('zext', 'sext', 'trunc'):
            inner = t[3]
            c = self.cond(inner) if inner[0] in ('cmp', 'not', 'and', 'or') or term_type(inner) == 'i1' else None
            if c is not None:
                return (1 if c else 0) if t[1] != 'sext' else (-1 if c else 0)
            v = self.num(inner)
            if v is None:
                return None
            if t[1] == 'trunc':
                return v & ((1 << (type_bits(t[2]) or 64)) - 1)
            return v
        if h == 'op' and t[1] in ('add', 'sub', 'or', 'and', 'xor', 'mul'):
            a, b = self.num(t[3]), self.num(t[4])
            if a is None or b is None:
                return None
            return {'add': a + b, 'sub': a - b, 'or': a | b, 'and': a & b, 'xor': a ^ b, 'mul': a * b}[t[1]]
        if h == 'sel':
            c = self.cond(t[1])
            return None if c is None else self.num(t[2] if c else t[3])
        if h in ('cmp', 'not', 'and', 'or'):
            c = self.cond(t)
            return None if c is None else (1 if c else 0)
        return None

    def cond(self, t):
        h = t[0]
        if t == TRUE:
            return True
        if t == FALSE:
            return False
        if h == 'not':
            c = self.cond(t[1])
            return None if c is None else not c
        if h == 'and':
            a, b = self.cond(t[1]), self.cond(t[2])
            if a is False or b is False:
                return False
            if a is None or b is None:
                return None
            return True
        if h == 'or':
            a, b = self.cond(t[1]), self.cond(t[2])
            if a is True or b is True:
                return True
            if a is None or b is None:
                return None
            return False
        if h == 'sel':
            c = self.cond(t[1])
            if c is None:
                return None
            return self.cond(t[2] if c else t[3])
        if h == 'cmp' and self.kind == 'float' and any(x[0] == 'fn' and x[1] == 'llvm.fabs' for x in (t[2], t[3])):
            # |x| against an infinite constant (isfinite / isinf): |x| is +inf iff x is assumed infinite, otherwise it is
            # some finite value, which only an infinite constant can be compared with
            def mag(x):
                if x[0] == 'fn' and x[1] == 'llvm.fabs':
                    v = self.value(x[3])
                    if v is None or v not in self.rank:
                        return None
                    return 10 ** 6 if v in self.inf else 5 * 10 ** 5
                if x[0] == 'cf' and ((isinstance(x[1], float) and x[1] in (float('inf'), float('-inf'))) or (isinstance(x[1], str) and 'inf' in x[1].lower())):
                    return self.rank_of(x)
                return None
            ra, rb = mag(t[2]), mag(t[3])
            if ra is None or rb is None or t[1] not in self.FLOAT:
                return None
            self.preds_seen.add(t[1])
            return self.FLOAT[t[1]](ra, rb)
        if h == 'cmp':
            a, b = self.value(t[2]), self.value(t[3])
            inf_vs_const = self.kind == 'float' and a is not None and b is not None and ((a in self.inf and b[0] == 'cf') or (b in self.inf and a[0] == 'cf'))
            if (a is None or b is None or self.rank_of(a) is None or self.rank_of(b) is None) and not inf_vs_const:
                # arithmetic on truth values (branch-free code: the 0/1 results of the comparisons are added, or-ed, ... and the
                # sum is tested): exact small-integer evaluation
                x, y = self.num(t[2]), self.num(t[3])
                if x is None or y is None:
                    return None
                w = _term_width(t[2]) or _term_width(t[3]) or 64
                m = (1 << w) - 1
                sg = lambda v: (v & m) - (1 << w) if (v & m) >> (w - 1) else (v & m)
                p = t[1]
                ops = {'eq': lambda: (x & m) == (y & m), 'ne': lambda: (x & m) != (y & m), 'ult': lambda: (x & m) < (y & m), 'ule': lambda: (x & m) <= (y & m),
                       'ugt': lambda: (x & m) > (y & m), 'uge': lambda: (x & m) >= (y & m), 'slt': lambda: sg(x) < sg(y), 'sle': lambda: sg(x) <= sg(y),
                       'sgt': lambda: sg(x) > sg(y), 'sge': lambda: sg(x) >= sg(y)}
                return ops[p]() if p in ops else None
            ra, rb = self.rank_of(a), self.rank_of(b)
            if self.kind == 'float' and (ra is None) != (rb is None):
                # an atom assumed infinite against a finite constant is decided (the sign test of an isinf branch)
                fin = lambda x: x[0] == 'cf' and isinstance(x[1], float) and abs(x[1]) < 3.4e38
                if ra is None and fin(a) and b in self.inf:
                    ra = 0
                elif rb is None and fin(b) and a in self.inf:
                    rb = 0
            if ra is None or rb is None:
                return None
            p = t[1]
            self.preds_seen.add(p)
            if p in self.EQ:
                return self.EQ[p](ra, rb)
            table = {'signed': self.SIGNED, 'unsigned': self.UNSIGNED, 'float': self.FLOAT}[self.kind]
            if p not in table:
                self.bad_pred.append(p)
                other = dict(self.SIGNED)
                other.update(self.UNSIGNED)
                other.update(self.FLOAT)
                if p in other:
                    return other[p](ra, rb)
                return None
            return table[p](ra, rb)
        return None


def ord_compare(a, b, max_atoms=3):
    """Are two terms made of unsigned atoms, zero constants, comparisons, selects and value-preserving widenings the same
    value for EVERY valuation?  Decided over all weak orderings of the atoms and zero (zero least): True / False / None
    (None: some node is outside this fragment).  Equal rank means equal value, so `x == y ? x : y` is y."""
    ats = sorted(x for x in (atoms(a) | atoms(b)) if x[0] not in ('undef', 'poison'))
    if not ats or len(ats) > max_atoms or any(x[0] != 'arg' for x in ats):
        return None
    zeros = set()
    for t in (a, b):
        walk(t, lambda x: zeros.add(x) if isinstance(x, tuple) and x[0] in ('ci', 'cf') and x[1] in (0, 0.0) and not isinstance(x[1], str) else None)

    def ev(t, oe):
        if t in oe.rank:
            return oe.rank[t]
        if not isinstance(t, tuple):
            return None
        if t[0] == 'cast' and t[1] in ('uitofp', 'zext', 'fpext'):
            return ev(t[3], oe)
        if t[0] == 'sel':
            c = oe.cond(t[1])
            return None if c is None else ev(t[2] if c else t[3], oe)
        return None
    for r in weak_orderings(len(ats) + 1):
        if r[-1] != 0:
            continue                      # zero is the least unsigned value
        rank = {x: r[i] for i, x in enumerate(ats)}
        for z in zeros:
            rank[z] = 0
        oe = OrdEval(rank, 'unsigned')
        ra, rb = ev(a, oe), ev(b, oe)
        if ra is None or rb is None or oe.bad_pred:
            return None
        if ra != rb:
            return False
    return True


# --------------------------------------------------------------------------
# D-poly: ring normal form
# --------------------------------------------------------------------------
class Poly:
    """Polynomial over opaque atoms with Fraction (real ring) or int-mod-2^w coefficients."""
    __slots__ = ("t", "mod")

    def __init__(self, terms=None, mod=None):
        self.t = {k: v for k, v in (terms or {}).items() if v != 0}
        self.mod = mod

    @staticmethod
    def const(c, mod=None):
        if mod:
            c %= mod
        return Poly({(): c}, mod)

    @staticmethod
    def atom(a, mod=None):
        return Poly({(a,): 1}, mod)

    def _norm(self, c):
        return c % self.mod if self.mod else c

    def __add__(self, o):
        r = dict(self.t)
        for k, v in o.t.items():
            r[k] = self._norm(r.get(k, 0) + v)
        return Poly(r, self.mod)

    def __neg__(self):
        return Poly({k: self._norm(-v) for k, v in self.t.items()}, self.mod)

    def __sub__(self, o):
        return self + (-o)

    def __mul__(self, o):
        r = {}
        for k1, v1 in self.t.items():
            for k2, v2 in o.t.items():
                k = tuple(sorted(k1 + k2, key=repr))
                r[k] = self._norm(r.get(k, 0) + v1 * v2)
        return Poly(r, self.mod)

    def __eq__(self, o):
        return isinstance(o, Poly) and self.t == o.t

    def __hash__(self):
        return hash(frozenset(self.t.items()))

    def is_const(self):
        return all(k == () for k in self.t)

    def show(self, names=None):
        if not self.t:
            return "0"
        parts = []
        for k, v in sorted(self.t.items(), key=lambda kv: repr(kv[0])):
            mon = "*".join(show(a, names) for a in k)
            if not mon:
                parts.append(str(v))
            elif v == 1:
                parts.append(mon)
            else:
                parts.append("%s*%s" % (v, mon))
        return " + ".join(parts)


def to_poly(t, ring, atomize=None, width=None, memo=None):
    """Canonicalise a term as a polynomial.  ring='real': fadd/fsub/fmul and
    int<->fp / fp width conversions are ring homomorphisms ("up to rounding");
    ring='int': add/sub/mul/shl-by-constant modulo 2^width, zext/sext/trunc are
    treated as the identity (the caller checks widths separately).  Any other
    operation becomes an opaque atom wrapping the (recursively canonicalised)
    term itself."""
    mod = (1 << width) if (ring == 'int' and width) else None
    if memo is None:
        memo = {}

    def rec(x):
        if x in memo:
            return memo[x]
        r = _rec(x)
        memo[x] = r
        return r

    def _rec(x):
        if atomize is not None:
            a = atomize(x)
            if a is not None:
                return Poly.atom(a, mod)
        h = x[0]
        if h == 'ci':
            v = x[1]
            if ring == 'real' and v >= 1 << (x[2] - 1) and x[2] > 1:
                v -= 1 << x[2]
            return Poly.const(Fraction(v) if ring == 'real' else v, mod)
        if h == 'cf':
            if ring == 'real' and isinstance(x[1], float) and x[1] == x[1] and abs(x[1]) != float('inf'):
                return Poly.const(Fraction(x[1]), mod)
            return Poly.atom(x, mod)
        if h == 'op':
            o = x[1]
            if ring == 'real' and o in ('fadd', 'fsub', 'fmul'):
                a, b = rec(x[3]), rec(x[4])
                return a + b if o == 'fadd' else a - b if o == 'fsub' else a * b
            if ring == 'int' and o in ('add', 'sub', 'mul'):
                a, b = rec(x[3]), rec(x[4])
                return a + b if o == 'add' else a - b if o == 'sub' else a * b
            if ring == 'int' and o == 'shl' and x[4][0] == 'ci':
                return rec(x[3]) * Poly.const(1 << x[4][1], mod)
            if ring == 'int' and o == 'or' and x[4][0] == 'ci' and x[4][1] == 0:
                return rec(x[3])
            if ring == 'int' and o == 'or':
                # or-ing into bits a left shift has cleared is addition: (a << k) | c with c < 2^k, or zext(bit) likewise
                for a_, b_ in ((x[3], x[4]), (x[4], x[3])):
                    if a_[0] == 'op' and a_[1] == 'shl' and a_[4][0] == 'ci':
                        k_ = a_[4][1]
                        small = (b_[0] == 'ci' and b_[1] < (1 << k_)) or (b_[0] == 'cast' and b_[1] == 'zext' and (type_bits(term_type(b_[3]) or '') or 64) <= k_) \
                            or (b_[0] == 'sel' and all(y[0] == 'ci' and y[1] < (1 << k_) for y in (b_[2], b_[3])))
                        if small:
                            return rec(a_) + rec(b_)
            if ring == 'int' and o == 'xor' and x[4][0] == 'ci' and x[4][1] == (1 << x[4][2]) - 1 and x[4][2] > 1:
                return Poly.const(-1, mod) - rec(x[3])         # ~a == -1 - a
        if h == 'cast':
            if ring == 'real' and x[1] in ('fpext', 'fptrunc', 'sitofp', 'uitofp'):
                return rec(x[3])
            if ring == 'int' and x[1] in ('zext', 'sext', 'trunc'):
                return rec(x[3])
        if h == 'fn' and x[1] == 'llvm.fmuladd' and ring == 'real':
            return rec(x[3]) * rec(x[4]) + rec(x[5])
        return Poly.atom(x, mod)

    return rec(t)


def _cond_literals(t):
    """comparison literals occurring in the conditions of the selects of a term"""
    lits, seen = [], set()

    def lit(c):
        if not isinstance(c, tuple):
            return
        if c[0] in ('not',):
            lit(c[1])
        elif c[0] in ('and', 'or'):
            lit(c[1]); lit(c[2])
        elif c[0] == 'op' and c[1] in ('and', 'or', 'xor'):
            lit(c[3]); lit(c[4])
        elif c[0] == 'sel':
            lit(c[1]); lit(c[2]); lit(c[3])
        elif c[0] == 'ci':
            return
        elif c not in seen:
            seen.add(c)
            lits.append(c)

    def f(x):
        if x[0] == 'sel':
            lit(x[1])
    walk(t, f)
    return lits


def _eval_cond(c, assign):
    if c == TRUE or c == FALSE:
        return c == TRUE
    if c in assign:
        return assign[c]
    if c[0] == 'not':
        v = _eval_cond(c[1], assign)
        return None if v is None else not v
    if c[0] in ('and', 'or') or (c[0] == 'op' and c[1] in ('and', 'or', 'xor')):
        a, b = (c[1], c[2]) if c[0] in ('and', 'or') else (c[3], c[4])
        o = c[0] if c[0] in ('and', 'or') else c[1]
        x, y = _eval_cond(a, assign), _eval_cond(b, assign)
        if x is None or y is None:
            return None
        return (x and y) if o == 'and' else (x or y) if o == 'or' else (x != y)
    if c[0] == 'sel':
        k = _eval_cond(c[1], assign)
        if k is None:
            return None
        return _eval_cond(c[2] if k else c[3], assign)
    return None


def _resolve(t, assign, subst, memo):
    """replace every select whose condition is decided by the assignment with the taken branch, and atoms by constants"""
    if not isinstance(t, tuple):
        return t
    if t in memo:
        return memo[t]
    if t in subst:
        r = subst[t]
    elif t[0] == 'sel':
        k = _eval_cond(t[1], assign)
        if k is None:
            r = ('sel',) + tuple(_resolve(x, assign, subst, memo) for x in t[1:])
        else:
            r = _resolve(t[2] if k else t[3], assign, subst, memo)
    else:
        r = tuple(_resolve(x, assign, subst, memo) if isinstance(x, tuple) else x for x in t)
    memo[t] = r
    return r


def poly_cases(t, ring, limit=8, **kw):
    """Path-sensitive canonicalisation.  A lookup may branch on its configuration ("if the off-diagonal entries are
    zero, skip the product"): the selects of the term are resolved under every truth assignment of the comparison
    literals in their conditions, and an equality literal `atom == constant` that is true in a case substitutes the
    constant for the atom in that case.  Returns [(subst, polynomial)], one per feasible case, or None when the term
    has more than `limit` literals.  Sound over the ring: the cases cover every input, and each case only uses facts
    that hold in it."""
    lits = _cond_literals(t)
    if not lits:
        return [({}, to_poly(t, ring, **kw))]
    if len(lits) > limit:
        return None
    return [(subst, to_poly(_resolve(t, assign, subst, {}), ring, **kw)) for assign, subst in enum_cases(lits)]


def enum_cases(lits):
    """feasible truth assignments of comparison literals, each with the atom -> constant substitution it implies"""
    EQ, NE = ('oeq', 'ueq', 'eq'), ('one', 'une', 'ne')
    for bits in itertools.product((True, False), repeat=len(lits)):
        assign = dict(zip(lits, bits))
        subst, feasible = {}, True
        for l, v in assign.items():
            if l[0] == 'cmp' and ((l[1] in EQ and v) or (l[1] in NE and not v)):
                a, b = l[2], l[3]
                if b[0] not in ('ci', 'cf') and a[0] in ('ci', 'cf'):
                    a, b = b, a
                if b[0] in ('ci', 'cf') and a[0] not in ('ci', 'cf'):
                    if a in subst and subst[a] != b:
                        feasible = False
                    subst[a] = b
        for l, v in assign.items():     # a disequality assumed true contradicts a substitution that makes both sides equal
            if feasible and l[0] == 'cmp' and ((l[1] in EQ and not v) or (l[1] in NE and v)):
                if subst.get(l[2], l[2]) == subst.get(l[3], l[3]):
                    feasible = False
        if feasible:
            yield assign, subst


def merge_calls(calls, limit=8, exhaustive=True):
    """Several query sites under mutually exclusive, jointly exhaustive path conditions (a fast path and a slow path)
    are one query: returns a list of (assign, subst, call) or None when the conditions are not of that form."""
    if len(calls) == 1 and calls[0].cond == TRUE:
        return [({}, {}, calls[0])]
    lits = _cond_literals(('x',) + tuple(('sel', c.cond, TRUE, FALSE) for c in calls))
    if len(lits) > limit:
        return None
    out = []
    for assign, subst in enum_cases(lits):
        on = [c for c in calls if _eval_cond(c.cond, assign)]
        if len(on) > 1 or (exhaustive and not on) or any(_eval_cond(c.cond, assign) is None for c in calls):
            return None
        if on:
            out.append((assign, subst, on[0]))
    return out


def poly_subst(p, subst, ring='real'):
    """apply an atom -> constant substitution to a polynomial"""
    if not subst:
        return p
    r = Poly({}, p.mod)
    for mon, coef in p.t.items():
        term = Poly.const(coef, p.mod)
        for a in mon:
            term = term * (to_poly(subst[a], ring) if a in subst else Poly.atom(a, p.mod))
        r = r + term
    return r


# --------------------------------------------------------------------------
# D-bits: bit provenance
# --------------------------------------------------------------------------
# a bit is 0, 1, ('in', atom, i) or ('top', frozenset(atoms))
def _top(*bits):
    s = set()
    for b in bits:
        if isinstance(b, tuple):
            if b[0] == 'in':
                s.add((b[1], b[2]))
            else:
                s |= b[1]
    return ('top', frozenset(s))


def bit_and(a, b):
    if a == 0 or b == 0:
        return 0
    if a == 1:
        return b
    if b == 1:
        return a
    if a == b:
        return a
    return _top(a, b)


def bit_or(a, b):
    if a == 1 or b == 1:
        return 1
    if a == 0:
        return b
    if b == 0:
        return a
    if a == b:
        return a
    return _top(a, b)


def bit_xor(a, b):
    if a == 0:
        return b
    if b == 0:
        return a
    if a == b:
        return 0
    if a == 1 and b == 1:
        return 0
    return _top(a, b)


def to_bits(t, width, atom_width=None, memo=None, env=None):
    """Abstract bit vector (LSB first) of an integer term.  env: input bits known on the path to this sub-term (facts of
    the select conditions above it), used when the arms of a select are merged."""
    if memo is None:
        memo = {}
    key = (t, width, env)
    if key in memo:
        return memo[key]
    r = _to_bits(t, width, atom_width or {}, memo, env)
    if len(r) != width:
        r = (r + [0] * width)[:width]
    memo[key] = r
    return r


def _term_width(t):
    h = t[0]
    if h == 'ci':
        return t[2]
    if h in ('op', 'cast'):
        ty = t[2]
        if ty.startswith('i') and ty[1:].isdigit():
            return int(ty[1:])
    if h == 'fn':
        ty = t[2]
        if ty.startswith('i') and ty[1:].isdigit():
            return int(ty[1:])
    return None


def _bit_facts(c, aw, memo):
    """({input bit: value} known when condition c holds, {..} known when it does not hold).  `expr == K` fixes every bit of
    expr, hence every input bit that some bit of expr IS (an early exit "no set bits left above position i", a special
    case "x == 1"); `x < 2^k` fixes the bits from k upwards to zero."""
    E = {}
    if not isinstance(c, tuple) or not c:
        return E, E
    key = ('facts', c)
    if key in memo:
        return memo[key]
    r = _bit_facts1(c, aw, memo)
    memo[key] = r
    return r


def _bit_facts1(c, aw, memo):
    E = {}
    if c[0] == 'not':
        a, b = _bit_facts(c[1], aw, memo)
        return b, a
    if c[0] in ('and', 'or'):
        (a1, b1), (a2, b2) = _bit_facts(c[1], aw, memo), _bit_facts(c[2], aw, memo)
        both = lambda p, q: {k: v for k, v in p.items() if q.get(k) == v}
        either = lambda p, q: {**p, **q}
        return (either(a1, a2), both(b1, b2)) if c[0] == 'and' else (both(a1, a2), either(b1, b2))
    if c[0] == 'cmp' and c[1] in ('eq', 'ne'):
        x, y = c[2], c[3]
        if x[0] == 'ci':
            x, y = y, x
        if y[0] == 'ci' and y[2] <= 64:
            bits = to_bits(x, y[2], aw, memo)
            z = {(b[1], b[2]): (y[1] >> j) & 1 for j, b in enumerate(bits) if isinstance(b, tuple) and b[0] == 'in'}
            return (z, E) if c[1] == 'eq' else (E, z)
    if c[0] == 'cmp' and c[1] in ('ult', 'ule', 'ugt', 'uge') and (c[3][0] == 'ci' or c[2][0] == 'ci'):
        x, y, p = (c[2], c[3], c[1]) if c[3][0] == 'ci' else (c[3], c[2], {'ult': 'ugt', 'ule': 'uge', 'ugt': 'ult', 'uge': 'ule'}[c[1]])
        bound = y[1] if p in ('ult', 'uge') else y[1] + 1          # x < bound  <=>  the condition (ult/ule) or its negation (uge/ugt)
        if bound > 0 and bound & (bound - 1) == 0 and y[2] <= 64:
            k = bound.bit_length() - 1
            bits = to_bits(x, y[2], aw, memo)
            z = {(b[1], b[2]): 0 for b in bits[k:] if isinstance(b, tuple) and b[0] == 'in'}
            return (z, E) if p in ('ult', 'ule') else (E, z)
    return E, E


def _to_bits(t, width, aw, memo, env=None):
    h = t[0]
    if h == 'ci':
        return [(t[1] >> i) & 1 for i in range(width)]
    if h == 'arg' or h == 'ld':
        w = aw.get(t, width)
        return [('in', t, i) for i in range(min(w, width))] + [0] * max(0, width - w) if w < width else [('in', t, i) for i in range(width)]
    if t in aw:
        w = aw[t]
        return ([('in', t, i) for i in range(w)] + [0] * width)[:width]
    if h == 'cast' and t[1] == 'bitcast':
        w = type_bits(t[2]) or width
        return ([('in', t[3] if term_type(t[3]) else t, i) for i in range(w)] + [0] * width)[:width]
    if h == 'cast':
        k = t[1]
        inner = t[3]
        iw = _term_width(inner) or aw.get(inner) or width
        if k == 'zext':
            b = to_bits(inner, iw, aw, memo, env)
            return (b + [0] * width)[:width]
        if k == 'sext':
            b = to_bits(inner, iw, aw, memo, env)
            return (b + [b[-1]] * width)[:width]
        if k == 'trunc':
            b = to_bits(inner, max(iw, width), aw, memo, env)
            return b[:width]
    if h == 'op':
        o = t[1]
        w = _term_width(t) or width
        if o in ('and', 'or', 'xor'):
            a, b = to_bits(t[3], w, aw, memo, env), to_bits(t[4], w, aw, memo, env)
            f = {'and': bit_and, 'or': bit_or, 'xor': bit_xor}[o]
            return [f(x, y) for x, y in zip(a, b)][:width]
        if o == 'shl' and t[4][0] == 'ci':
            a = to_bits(t[3], w, aw, memo, env)
            s = t[4][1]
            return ([0] * s + a)[:w][:width]
        if o == 'lshr' and t[4][0] == 'ci':
            a = to_bits(t[3], w, aw, memo, env)
            s = t[4][1]
            return (a[s:] + [0] * s)[:width]
        if o == 'add':
            # addition of bit-disjoint values is or; otherwise carries make everything above the lowest overlap unknown
            a, b = to_bits(t[3], w, aw, memo, env), to_bits(t[4], w, aw, memo, env)
            out = []
            carry = 0
            for x, y in zip(a, b):
                if carry == 0 and (x == 0 or y == 0):
                    out.append(y if x == 0 else x)
                else:
                    out.append(_top(x, y, carry) if not (isinstance(carry, int) and carry == 0) else _top(x, y))
                    carry = _top(x, y, carry) if not isinstance(carry, int) else _top(x, y)
            return out[:width]
        if o == 'mul' and t[4][0] == 'ci' and t[4][1] & (t[4][1] - 1) == 0 and t[4][1] > 0:
            a = to_bits(t[3], w, aw, memo, env)
            s = t[4][1].bit_length() - 1
            return ([0] * s + a)[:w][:width]
    if h == 'fn' and t[1].startswith("llvm.x86.bmi.pdep") and t[4][0] == 'ci':
        w = _term_width(t) or width
        src = to_bits(t[3], w, aw, memo, env)
        mask = t[4][1]
        out = []
        k = 0
        for i in range(w):
            if (mask >> i) & 1:
                out.append(src[k])
                k += 1
            else:
                out.append(0)
        return out[:width]
    if h == 'sel':
        # facts of this select's own condition only: threading the facts of all enclosing selects down the arms makes the
        # memo key path-dependent and the evaluation exponential on nests of early exits
        ft, ff = _bit_facts(t[1], aw, memo)
        a = to_bits(t[2], width, aw, memo)
        b = to_bits(t[3], width, aw, memo)
        out = []
        for x, y in zip(a, b):
            if x == y:
                out.append(x)
            elif x in (0, 1) and isinstance(y, tuple) and y[0] == 'in' and ft.get((y[1], y[2])) == x:
                out.append(y)          # where the condition holds that input bit has this very value, so "is that input bit" describes both arms
            elif y in (0, 1) and isinstance(x, tuple) and x[0] == 'in' and ff.get((x[1], x[2])) == y:
                out.append(x)
            else:
                out.append(_top(x, y))
        return out
    deps = frozenset((a, -1) for a in atoms(t))
    return [('top', deps)] * width


# --------------------------------------------------------------------------
# D-dep on cyclic CFGs: label propagation to a fixed point
# --------------------------------------------------------------------------
class Taint:
    """May-dependence labels for every SSA value of a function whose CFG may
    contain loops.  Sources: arguments (arg_labels: index -> label) and calls
    (call_label(inst) -> label or None: a label *replaces* the union of the
    argument labels, i.e. the call is an abstraction barrier).  Memory: each
    alloca is one weakly-updated cell; other memory carries label 'mem'.
    Data dependence only (operands, phi inputs, select conditions); branch
    conditions are exposed separately via cond_labels()."""

    def __init__(self, fn, arg_labels, call_label=None):
        self.fn = fn if isinstance(fn, Func) else Func(fn)
        self.lab = {}
        self.cell = {}
        self.pts = {}
        self.arg_labels = arg_labels
        self.call_label = call_label or (lambda inst: None)
        self.call_args = {}
        self._run()

    def _op(self, o):
        k = o["k"]
        if k == "v":
            return self.lab.get(o["id"], frozenset())
        if k == "arg":
            l = self.arg_labels.get(o["i"])
            return frozenset([l]) if l else frozenset()
        return frozenset()

    def _ptr(self, o):
        if o["k"] == "v":
            return self.pts.get(o["id"], frozenset())
        if o["k"] == "arg":
            return frozenset([("arg", o["i"])])
        return frozenset()

    def _run(self):
        changed = True
        rounds = 0
        while changed:
            changed = False
            rounds += 1
            if rounds > 200:
                raise AnalysisBroken("taint analysis did not converge on %s" % self.fn.name)
            for b in self.fn.blocks:
                for i in b["insts"]:
                    op = i["op"]
                    ops = i["ops"]
                    new = None
                    npts = None
                    if op == "alloca":
                        npts = frozenset([("alloca", i["id"])])
                        new = frozenset()
                    elif op in ("getelementptr", "bitcast", "addrspacecast"):
                        npts = self._ptr(ops[0])
                        new = frozenset().union(*[self._op(o) for o in ops])
                    elif op in ("phi", "select"):
                        npts = frozenset().union(*[self._ptr(o) for o in ops])
                        new = frozenset().union(*[self._op(o) for o in ops])
                    elif op == "load":
                        p = self._ptr(ops[0])
                        new = self._op(ops[0])
                        for obj in p:
                            if obj[0] == "alloca":
                                new = new | self.cell.get(obj, frozenset())
                            else:
                                l = self.arg_labels.get(("mem", obj[1]))
                                new = new | frozenset([l or "mem"])
                        if not p:
                            new = new | frozenset(["mem"])
                    elif op == "store":
                        v = self._op(ops[0]) | self._op(ops[1])
                        for obj in self._ptr(ops[1]):
                            old = self.cell.get(obj, frozenset())
                            if not v <= old:
                                self.cell[obj] = old | v
                                changed = True
                        continue
                    elif op in ("call", "invoke"):
                        name = i.get("callee") or ""
                        if name.startswith(IGNORED_INTRINSICS):
                            continue
                        nargs = i.get("nargs", len(ops) - 1)
                        al = [self._op(o) for o in ops[:nargs]]
                        self.call_args[i["id"]] = al
                        l = self.call_label(i)
                        if l is not None:
                            new = frozenset([l])
                        else:
                            new = frozenset().union(*al) if al else frozenset()
                            if name.startswith("llvm.memcpy") or name.startswith("llvm.memmove"):
                                src = frozenset()
                                for obj in self._ptr(ops[1]):
                                    src = src | (self.cell.get(obj, frozenset()) if obj[0] == "alloca" else frozenset(["mem"]))
                                for obj in self._ptr(ops[0]):
                                    old = self.cell.get(obj, frozenset())
                                    if not src <= old:
                                        self.cell[obj] = old | src
                                        changed = True
                            else:
                                # a callee may write through pointer arguments
                                for o in ops[:nargs]:
                                    for obj in self._ptr(o):
                                        old = self.cell.get(obj, frozenset())
                                        if not new <= old:
                                            self.cell[obj] = old | new
                                            changed = True
                    elif op in ("br", "switch", "ret", "unreachable", "resume"):
                        continue
                    else:
                        new = frozenset().union(*[self._op(o) for o in ops]) if ops else frozenset()
                    if new is not None and self.lab.get(i["id"]) != new:
                        if not new <= self.lab.get(i["id"], frozenset()) or i["id"] not in self.lab:
                            self.lab[i["id"]] = self.lab.get(i["id"], frozenset()) | new
                            changed = True
                    if npts is not None and self.pts.get(i["id"]) != npts:
                        if not npts <= self.pts.get(i["id"], frozenset()):
                            self.pts[i["id"]] = self.pts.get(i["id"], frozenset()) | npts
                            changed = True

    def ret_labels(self):
        out = frozenset()
        for b in self.fn.blocks:
            t = b["insts"][-1]
            if t["op"] == "ret" and t["ops"]:
                out = out | self._op(t["ops"][0])
        return out

    def cond_labels(self):
        """labels of every conditional branch / switch condition: [(inst, labels)]"""
        out = []
        for b in self.fn.blocks:
            t = b["insts"][-1]
            if t["op"] == "br" and len(t["ops"]) == 3:
                out.append((t, self._op(t["ops"][0])))
            elif t["op"] == "switch":
                out.append((t, self._op(t["ops"][0])))
        return out

    def calls(self, prefix):
        out = []
        for b in self.fn.blocks:
            for i in b["insts"]:
                if i["op"] in ("call", "invoke") and (i.get("callee") or "").startswith(prefix):
                    out.append(i)
        return out
