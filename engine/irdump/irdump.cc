// irdump: dump LLVM IR (text or bitcode) as JSON facts for the python abstract
// interpreter.  No analysis happens here; the tool only makes the IR, with
// resolved callees, constant GEP offsets, type sizes and debug locations,
// available without a textual-IR parser.
//
// usage: irdump <file.ll|.bc> [--prefix P]...   (functions whose name starts
//        with any P are dumped in full; with --callees, so are all defined
//        functions reachable from them)
#include "llvm/ADT/SmallString.h"
#include "llvm/Demangle/Demangle.h"
#include "llvm/IR/Constants.h"
#include "llvm/IR/DataLayout.h"
#include "llvm/IR/DebugInfoMetadata.h"
#include "llvm/IR/Function.h"
#include "llvm/IR/GetElementPtrTypeIterator.h"
#include "llvm/IR/GlobalVariable.h"
#include "llvm/IR/InstrTypes.h"
#include "llvm/IR/Instructions.h"
#include "llvm/IR/IntrinsicInst.h"
#include "llvm/IR/LLVMContext.h"
#include "llvm/IR/Module.h"
#include "llvm/IR/Operator.h"
#include "llvm/IRReader/IRReader.h"
#include "llvm/Support/JSON.h"
#include "llvm/Support/SourceMgr.h"
#include "llvm/Support/raw_ostream.h"

#include <map>
#include <set>
#include <string>
#include <vector>

using namespace llvm;

static std::string tyStr(Type *T) {
  std::string s;
  raw_string_ostream os(s);
  T->print(os);
  return os.str();
}

struct Dumper {
  const DataLayout &DL;
  std::map<const Value *, int> ids;
  int next = 0;
  explicit Dumper(const DataLayout &dl) : DL(dl) {}

  int idOf(const Value *V) {
    auto it = ids.find(V);
    if (it != ids.end()) return it->second;
    return ids[V] = next++;
  }

  json::Value constant(const Constant *C, int depth = 0) {
    json::Object o;
    o["ty"] = tyStr(C->getType());
    if (auto *CI = dyn_cast<ConstantInt>(C)) {
      o["k"] = "ci";
      SmallString<40> s;
      CI->getValue().toStringUnsigned(s);
      o["v"] = std::string(s.str());
      o["bits"] = (int64_t)CI->getBitWidth();
    } else if (auto *CF = dyn_cast<ConstantFP>(C)) {
      o["k"] = "cf";
      SmallString<40> s;
      CF->getValueAPF().toString(s);
      o["v"] = std::string(s.str());
      SmallString<40> h;
      CF->getValueAPF().bitcastToAPInt().toStringUnsigned(h);
      o["bitsval"] = std::string(h.str());
    } else if (isa<PoisonValue>(C)) {
      o["k"] = "poison";
    } else if (isa<UndefValue>(C)) {
      o["k"] = "undef";
    } else if (isa<ConstantPointerNull>(C)) {
      o["k"] = "null";
    } else if (auto *F = dyn_cast<Function>(C)) {
      o["k"] = "fn";
      o["name"] = F->getName().str();
    } else if (auto *G = dyn_cast<GlobalVariable>(C)) {
      o["k"] = "global";
      o["name"] = G->getName().str();
    } else if (isa<ConstantAggregateZero>(C)) {
      o["k"] = "zero";
    } else if (auto *CE = dyn_cast<ConstantExpr>(C)) {
      o["k"] = "cexpr";
      o["op"] = CE->getOpcodeName();
      json::Array ops;
      if (depth < 6)
        for (auto &U : CE->operands()) ops.push_back(constant(cast<Constant>(U), depth + 1));
      o["ops"] = std::move(ops);
      if (auto *GEP = dyn_cast<GEPOperator>(CE)) {
        APInt off(DL.getIndexSizeInBits(GEP->getPointerAddressSpace()), 0);
        if (GEP->accumulateConstantOffset(DL, off)) o["off"] = (int64_t)off.getSExtValue();
      }
    } else if (isa<ConstantAggregate>(C) || isa<ConstantDataSequential>(C)) {
      o["k"] = "cagg";
      json::Array el;
      unsigned n = 0;
      if (auto *CA = dyn_cast<ConstantAggregate>(C)) {
        for (auto &U : CA->operands()) {
          if (n++ > 256) break;
          el.push_back(constant(cast<Constant>(U), depth + 1));
        }
      } else {
        auto *CD = cast<ConstantDataSequential>(C);
        for (unsigned i = 0; i < CD->getNumElements() && i < 256; ++i) el.push_back(constant(CD->getElementAsConstant(i), depth + 1));
      }
      o["elems"] = std::move(el);
    } else {
      o["k"] = "cother";
    }
    return std::move(o);
  }

  json::Value operand(const Value *V) {
    if (auto *C = dyn_cast<Constant>(V)) return constant(C);
    json::Object o;
    o["ty"] = tyStr(V->getType());
    if (auto *A = dyn_cast<Argument>(V)) {
      o["k"] = "arg";
      o["i"] = (int64_t)A->getArgNo();
    } else if (auto *BB = dyn_cast<BasicBlock>(V)) {
      o["k"] = "bb";
      o["id"] = idOf(BB);
    } else if (isa<Instruction>(V)) {
      o["k"] = "v";
      o["id"] = idOf(V);
    } else if (isa<MetadataAsValue>(V)) {
      o["k"] = "md";
    } else if (isa<InlineAsm>(V)) {
      o["k"] = "asm";
    } else {
      o["k"] = "other";
    }
    return std::move(o);
  }

  json::Value function(const Function &F) {
    json::Object fo;
    fo["name"] = F.getName().str();
    fo["dname"] = demangle(F.getName().str());
    fo["ret"] = tyStr(F.getReturnType());
    json::Array args;
    for (auto &A : F.args()) {
      json::Object a;
      a["i"] = (int64_t)A.getArgNo();
      a["ty"] = tyStr(A.getType());
      a["name"] = A.getName().str();
      a["sret"] = A.hasStructRetAttr();
      a["byval"] = A.hasByValAttr();
      a["noalias"] = A.hasNoAliasAttr();
      a["readonly"] = A.onlyReadsMemory();
      if (A.hasStructRetAttr()) a["sret_size"] = (int64_t)DL.getTypeAllocSize(A.getParamStructRetType());
      if (A.hasByValAttr()) a["byval_size"] = (int64_t)DL.getTypeAllocSize(A.getParamByValType());
      args.push_back(std::move(a));
    }
    fo["args"] = std::move(args);
    json::Array fattrs;
    if (F.doesNotAccessMemory()) fattrs.push_back("readnone");
    if (F.onlyReadsMemory()) fattrs.push_back("readonly");
    if (F.doesNotThrow()) fattrs.push_back("nounwind");
    if (F.hasFnAttribute(Attribute::NoReturn)) fattrs.push_back("noreturn");
    fo["attrs"] = std::move(fattrs);
    if (auto *SP = F.getSubprogram()) {
      fo["file"] = SP->getFilename().str();
      fo["line"] = (int64_t)SP->getLine();
    }
    json::Array blocks;
    for (auto &BB : F) {
      json::Object bo;
      bo["id"] = idOf(&BB);
      bo["name"] = BB.getName().str();
      json::Array insts;
      for (auto &I : BB) {
        if (isa<DbgInfoIntrinsic>(&I)) continue;
        json::Object io;
        io["id"] = idOf(&I);
        io["op"] = I.getOpcodeName();
        io["ty"] = tyStr(I.getType());
        if (I.getType()->isSized()) io["bits"] = (int64_t)DL.getTypeSizeInBits(I.getType());
        json::Array ops;
        for (auto &U : I.operands()) ops.push_back(operand(U.get()));
        io["ops"] = std::move(ops);
        if (const DebugLoc &D = I.getDebugLoc()) {
          // innermost location and the chain of inlined-at locations
          json::Array chain;
          const DILocation *L = D.get();
          int guard = 0;
          while (L && guard++ < 32) {
            json::Object lo;
            lo["file"] = L->getFilename().str();
            lo["line"] = (int64_t)L->getLine();
            if (auto *S = L->getScope()) {
              if (auto *SP = S->getSubprogram()) lo["fn"] = SP->getName().str();
            }
            chain.push_back(std::move(lo));
            L = L->getInlinedAt();
          }
          io["dbg"] = std::move(chain);
        }
        if (auto *CI = dyn_cast<CmpInst>(&I)) io["pred"] = CmpInst::getPredicateName(CI->getPredicate()).str();
        if (auto *CB = dyn_cast<CallBase>(&I)) {
          if (auto *CF = CB->getCalledFunction()) {
            io["callee"] = CF->getName().str();
            io["dcallee"] = demangle(CF->getName().str());
            io["callee_defined"] = !CF->isDeclaration();
            if (CF->isIntrinsic()) io["intrinsic"] = true;
          } else {
            io["callee"] = nullptr;
          }
          io["nargs"] = (int64_t)CB->arg_size();
          json::Array ca;
          if (CB->doesNotAccessMemory()) ca.push_back("readnone");
          if (CB->onlyReadsMemory()) ca.push_back("readonly");
          if (CB->onlyAccessesArgMemory()) ca.push_back("argmemonly");
          if (CB->doesNotThrow()) ca.push_back("nounwind");
          if (CB->doesNotReturn()) ca.push_back("noreturn");
          io["cattrs"] = std::move(ca);
          if (auto *II = dyn_cast<InvokeInst>(&I)) {
            io["normal"] = idOf(II->getNormalDest());
            io["unwind"] = idOf(II->getUnwindDest());
          }
        }
        if (auto *G = dyn_cast<GetElementPtrInst>(&I)) {
          io["src_ty"] = tyStr(G->getSourceElementType());
          APInt off(DL.getIndexSizeInBits(G->getPointerAddressSpace()), 0);
          if (G->accumulateConstantOffset(DL, off)) io["off"] = (int64_t)off.getSExtValue();
          io["inbounds"] = G->isInBounds();
          // per-index scale for variable indices
          json::Array scales;
          for (auto GTI = gep_type_begin(G), E = gep_type_end(G); GTI != E; ++GTI) {
            json::Object so;
            if (StructType *ST = GTI.getStructTypeOrNull()) {
              so["struct"] = true;
              if (auto *CIx = dyn_cast<ConstantInt>(GTI.getOperand())) so["off"] = (int64_t)DL.getStructLayout(ST)->getElementOffset(CIx->getZExtValue());
            } else {
              so["scale"] = (int64_t)DL.getTypeAllocSize(GTI.getIndexedType());
            }
            scales.push_back(std::move(so));
          }
          io["scales"] = std::move(scales);
        }
        if (auto *L = dyn_cast<LoadInst>(&I)) {
          io["volatile"] = L->isVolatile();
          io["atomic"] = L->isAtomic();
          io["size"] = (int64_t)DL.getTypeStoreSize(L->getType());
        }
        if (auto *S = dyn_cast<StoreInst>(&I)) {
          io["volatile"] = S->isVolatile();
          io["atomic"] = S->isAtomic();
          io["size"] = (int64_t)DL.getTypeStoreSize(S->getValueOperand()->getType());
        }
        if (isa<AtomicRMWInst>(&I) || isa<AtomicCmpXchgInst>(&I) || isa<FenceInst>(&I)) io["atomic"] = true;
        if (auto *A = dyn_cast<AllocaInst>(&I)) {
          io["alloc_ty"] = tyStr(A->getAllocatedType());
          io["alloc_size"] = (int64_t)DL.getTypeAllocSize(A->getAllocatedType());
        }
        if (auto *P = dyn_cast<PHINode>(&I)) {
          json::Array inc;
          for (unsigned i = 0; i < P->getNumIncomingValues(); ++i) inc.push_back(idOf(P->getIncomingBlock(i)));
          io["incoming"] = std::move(inc);
        }
        if (auto *EV = dyn_cast<ExtractValueInst>(&I)) {
          json::Array ix;
          for (unsigned i : EV->indices()) ix.push_back((int64_t)i);
          io["indices"] = std::move(ix);
        }
        if (auto *IV = dyn_cast<InsertValueInst>(&I)) {
          json::Array ix;
          for (unsigned i : IV->indices()) ix.push_back((int64_t)i);
          io["indices"] = std::move(ix);
        }
        if (auto *SV = dyn_cast<ShuffleVectorInst>(&I)) {
          json::Array mk;
          for (int m : SV->getShuffleMask()) mk.push_back((int64_t)m);
          io["mask"] = std::move(mk);
        }
        if (auto *OB = dyn_cast<OverflowingBinaryOperator>(&I)) {
          io["nsw"] = OB->hasNoSignedWrap();
          io["nuw"] = OB->hasNoUnsignedWrap();
        }
        if (auto *PE = dyn_cast<PossiblyExactOperator>(&I)) io["exact"] = PE->isExact();
        if (auto *FP = dyn_cast<FPMathOperator>(&I)) {
          if (FP->getFastMathFlags().any()) io["fast"] = true;
        }
        if (auto *CI = dyn_cast<CastInst>(&I)) {
          io["src_bits"] = (int64_t)DL.getTypeSizeInBits(CI->getSrcTy());
        }
        insts.push_back(std::move(io));
      }
      bo["insts"] = std::move(insts);
      blocks.push_back(std::move(bo));
    }
    fo["blocks"] = std::move(blocks);
    return std::move(fo);
  }
};

int main(int argc, char **argv) {
  if (argc < 2) {
    errs() << "usage: irdump <file> [--prefix P]... [--callees] [--all]\n";
    return 2;
  }
  std::vector<std::string> prefixes;
  bool callees = false, all = false;
  for (int i = 2; i < argc; ++i) {
    std::string a = argv[i];
    if (a == "--prefix" && i + 1 < argc) prefixes.push_back(argv[++i]);
    else if (a == "--callees") callees = true;
    else if (a == "--all") all = true;
  }
  LLVMContext Ctx;
  SMDiagnostic Err;
  std::unique_ptr<Module> M = parseIRFile(argv[1], Err, Ctx);
  if (!M) {
    Err.print("irdump", errs());
    return 2;
  }
  const DataLayout &DL = M->getDataLayout();
  std::set<const Function *> want;
  std::vector<const Function *> work;
  for (auto &F : *M) {
    if (F.isDeclaration()) continue;
    bool w = all;
    for (auto &p : prefixes)
      if (F.getName().startswith(p)) w = true;
    if (w && want.insert(&F).second) work.push_back(&F);
  }
  if (callees) {
    while (!work.empty()) {
      const Function *F = work.back();
      work.pop_back();
      for (auto &BB : *F)
        for (auto &I : BB)
          if (auto *CB = dyn_cast<CallBase>(&I))
            if (auto *CF = CB->getCalledFunction())
              if (!CF->isDeclaration() && want.insert(CF).second) work.push_back(CF);
    }
  }
  json::Object root;
  json::Object fns;
  for (auto &F : *M) {
    if (!want.count(&F)) continue;
    Dumper D(DL);
    fns[F.getName().str()] = D.function(F);
  }
  root["functions"] = std::move(fns);
  json::Object globals;
  for (auto &G : M->globals()) {
    json::Object go;
    go["const"] = G.isConstant();
    go["ty"] = tyStr(G.getValueType());
    go["thread_local"] = G.isThreadLocal();
    go["linkage"] = (int64_t)G.getLinkage();
    go["dname"] = demangle(G.getName().str());
    if (G.hasInitializer()) {
      Dumper D(DL);
      go["init"] = D.constant(G.getInitializer());
    }
    globals[G.getName().str()] = std::move(go);
  }
  root["globals"] = std::move(globals);
  json::Array decls;
  for (auto &F : *M)
    if (F.isDeclaration()) decls.push_back(F.getName().str());
  root["declarations"] = std::move(decls);
  outs() << json::Value(std::move(root)) << "\n";
  return 0;
}
