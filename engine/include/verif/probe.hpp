// Opaque probe backend used by the static harnesses (never executed, never
// linked): a primitive backend whose lookup forwards every coordinate
// component, one scalar argument each, to an undefined external sink and
// returns the object the sink's result points to.  Layers above it can be
// analysed once, for every conforming stack beneath them (DESIGN section 1.3).
#pragma once

#include <cstddef>
#include <cstdint>
#include <iostream>
#include <memory>
#include <type_traits>
#include <utility>

#include <covfie/core/array.hpp>
#include <covfie/core/concepts.hpp>
#include <covfie/core/parameter_pack.hpp>
#include <covfie/core/qualifiers.hpp>
#include <covfie/core/vector.hpp>

namespace verif {
// never defined: every call is an external call in the IR
template <typename R, typename... A>
R * sink(std::uint64_t tag, A... a);
void io_write(std::ostream &, std::uint64_t tag);
std::uint64_t io_read(std::istream &);

struct probe_cfg {
    std::uint64_t tag;
};

// VERIF_PROBE_MIMIC lets the same harnesses run over probes that LOOK like other backends to compile-time
// inspection: 1 = configuration is nd_size<N> (like a storage-order layer), 2 = configuration is nd_size<1> and the
// owning data is constructible from (size) and (size, buffer) (like the array backend).  A layer that special-cases
// its backend's type then shows its special case over a probe too.
#ifndef VERIF_PROBE_MIMIC
#define VERIF_PROBE_MIMIC 0
#endif

template <std::size_t N, int Mimic>
struct cfg_of {
    using type = probe_cfg;
    static std::uint64_t tag(const type & c) { return c.tag; }
};
template <std::size_t N>
struct cfg_of<N, 1> {
    using type = covfie::array::array<std::size_t, N>;
    static std::uint64_t tag(const type & c) { return c[0]; }
};
template <std::size_t N>
struct cfg_of<N, 2> {
    using type = covfie::array::array<std::size_t, 1>;
    static std::uint64_t tag(const type & c) { return c[0]; }
};

// Variant only makes two probes of the same kind distinct types (source and destination of a converting construction).
template <typename In, bool ScalarIn, typename Out, bool RefOut, int Variant = 0>
struct probe {
    using this_t = probe<In, ScalarIn, Out, RefOut, Variant>;
    static constexpr bool is_initial = true;

    using contravariant_input_t = std::conditional_t<
        ScalarIn,
        covfie::vector::scalar_d<In>,
        covfie::vector::array_vector_d<In>>;
    using covariant_output_t = std::conditional_t<
        RefOut,
        covfie::vector::array_reference_vector_d<Out>,
        covfie::vector::array_vector_d<Out>>;
    using value_t = covfie::array::array<typename Out::type, Out::size>;
    using cfg_traits = cfg_of<In::size, VERIF_PROBE_MIMIC>;
    using configuration_t = typename cfg_traits::type;

    struct owning_data_t {
        using parent_t = this_t;
        owning_data_t() = default;
        owning_data_t(const owning_data_t &) = default;
        owning_data_t(owning_data_t &&) = default;
        owning_data_t & operator=(const owning_data_t &) = default;
        owning_data_t & operator=(owning_data_t &&) = default;
        explicit owning_data_t(configuration_t c)
            : m_cfg(c)
        {
        }
#if VERIF_PROBE_MIMIC == 2
        explicit owning_data_t(std::size_t n)
            : m_cfg(n)
        {
        }
        explicit owning_data_t(std::size_t n, std::unique_ptr<value_t[]> &&)
            : m_cfg(n)
        {
        }
#endif
        // converting construction from a probe of the same kind (another Variant)
        template <
            typename O,
            std::enable_if_t<
                !std::is_same_v<O, owning_data_t> && O::parent_t::is_initial &&
                    std::is_same_v<typename O::parent_t::configuration_t, configuration_t>,
                bool> = true>
        explicit owning_data_t(const O & o)
            : m_cfg(o.m_cfg)
        {
        }
        explicit owning_data_t(covfie::parameter_pack<configuration_t> && p)
            : m_cfg(p.x)
        {
        }
        explicit owning_data_t(covfie::parameter_pack<owning_data_t> && p)
            : m_cfg(p.x.m_cfg)
        {
        }
        configuration_t get_configuration() const
        {
            return m_cfg;
        }
        static owning_data_t read_binary(std::istream & fs)
        {
            return owning_data_t(configuration_t{io_read(fs)});
        }
        static void write_binary(std::ostream & fs, const owning_data_t & o)
        {
            io_write(fs, cfg_traits::tag(o.m_cfg));
        }
        configuration_t m_cfg{0};
    };

    struct non_owning_data_t {
        using parent_t = this_t;
        non_owning_data_t(const owning_data_t & o)
            : m_cfg(o.m_cfg)
        {
        }

        template <std::size_t... Is>
        value_t * call(const typename contravariant_input_t::vector_t & c, std::index_sequence<Is...>) const
        {
            if constexpr (ScalarIn) {
                return sink<value_t>(cfg_traits::tag(m_cfg), c);
            } else {
                return sink<value_t>(cfg_traits::tag(m_cfg), c[Is]...);
            }
        }

        COVFIE_DEVICE typename covariant_output_t::vector_t
        at(typename contravariant_input_t::vector_t c) const
        {
            return *call(c, std::make_index_sequence<In::size>{});
        }

        configuration_t m_cfg;
    };
};

template <typename S, std::size_t N>
using vd = covfie::vector::vector_d<S, N>;

// value-returning probe with an N-vector coordinate
template <typename S, std::size_t N, typename T, std::size_t M>
using vprobe = probe<vd<S, N>, false, vd<T, M>, false>;
// the same, as a distinct type
template <typename S, std::size_t N, typename T, std::size_t M>
using vprobe2 = probe<vd<S, N>, false, vd<T, M>, false, 1>;
// reference-returning probe with an N-vector coordinate
template <typename S, std::size_t N, typename T, std::size_t M>
using rprobe = probe<vd<S, N>, false, vd<T, M>, true>;
// array-like probe: scalar flat index in, reference out
template <typename T, std::size_t M, typename I = std::size_t>
using aprobe = probe<vd<I, 1>, true, vd<T, M>, true>;
}
