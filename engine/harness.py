"""Entry-harness generation and IR construction (engine E3, DESIGN section 2).

A harness is an `extern "C"` function whose scalar arguments are the atoms a
rule talks about (coordinate components, configuration values, probe tag) and
whose body builds a layer over the opaque probe backend, takes a view and
performs one lookup.  It is compiled to optimised LLVM IR and read back through
build/irdump; it is never linked or run.
"""
import os

from . import common, ir
from .common import AnalysisBroken

STYPES = {
    "size_t": ("std::size_t", "unsigned", 64),
    "unsigned": ("unsigned", "unsigned", 32),
    "int": ("int", "signed", 32),
    "long": ("long", "signed", 64),
    "float": ("float", "float", 32),
    "double": ("double", "float", 64),
}

INCLUDES = """
#include <verif/probe.hpp>
#include <covfie/core/field.hpp>
#include <covfie/core/field_view.hpp>
#include <covfie/core/algebra/affine.hpp>
#include <covfie/core/backend/primitive/array.hpp>
#include <covfie/core/backend/primitive/constant.hpp>
#include <covfie/core/backend/primitive/identity.hpp>
#include <covfie/core/backend/transformer/affine.hpp>
#include <covfie/core/backend/transformer/backup.hpp>
#include <covfie/core/backend/transformer/clamp.hpp>
#include <covfie/core/backend/transformer/covariant_cast.hpp>
#include <covfie/core/backend/transformer/dereference.hpp>
#include <covfie/core/backend/transformer/hilbert.hpp>
#include <covfie/core/backend/transformer/linear.hpp>
#include <covfie/core/backend/transformer/morton.hpp>
#include <covfie/core/backend/transformer/nearest_neighbour.hpp>
#include <covfie/core/backend/transformer/shuffle.hpp>
#include <covfie/core/backend/transformer/strided.hpp>
#include <covfie/core/utility/nd_map.hpp>
#include <covfie/core/utility/numeric.hpp>
using namespace covfie::backend;
namespace cv = covfie::vector;
"""


ROUTES = ("direct", "conv", "pack", "pack_owning", "copy", "assign", "move")


def construct(route, layer, pargs, cfg, tag, types=None):
    """C++ that declares `o`, an owning_data_t of layer<vprobe<pargs>>, built along one construction route from the
    configuration expression `cfg` (may mention B for the layer type) and the probe tag.  A layer's lookup contract is
    checked once per route: a member that only some constructors set (a cached flag, a derived bound) shows as a
    contract violation on the routes that forget it."""
    pre = "using P = verif::vprobe<%s>; using B = %s<P>;\n" % (pargs, layer) if types is None else types
    direct = "B::owning_data_t %%s(%s, P::owning_data_t(P::configuration_t{%s}));\n" % (cfg, tag)
    if route == "direct":
        return pre + direct % "o"
    if route == "conv":
        return ("using P2 = verif::vprobe2<%s>; using B2 = %s<P2>;\n" % (pargs, layer)
                + "B2::owning_data_t o0(%s, P2::owning_data_t(P2::configuration_t{%s}));\n" % (cfg.replace("B::", "B2::"), tag)
                + pre + "B::owning_data_t o(o0);\n")
    if route == "pack":
        return pre + "B::owning_data_t o(covfie::make_parameter_pack(B::configuration_t(%s), P::configuration_t{%s}));\n" % (cfg, tag)
    if route == "pack_owning":
        return pre + direct % "o1" + "B::owning_data_t o(covfie::make_parameter_pack(std::move(o1)));\n"
    if route == "copy":
        return pre + direct % "o1" + "B::owning_data_t o(o1);\n"
    if route == "assign":
        return pre + direct % "o1" + "B::owning_data_t o; o = o1;\n"
    if route == "move":
        return pre + direct % "o1" + "B::owning_data_t o(std::move(o1));\n"
    raise KeyError(route)


GLOBAL_EXTRA = []      # extra compiler flags for every build (used to re-run universes over mimic probes)


class Harness:
    def __init__(self, name, args, body, out=None, meta=None, ret=None):
        """args: [(ctype, role)], role is any hashable label, e.g. ('c', 0).
        out: (ctype, count) appends an output pointer argument named `out`."""
        self.name = name
        self.args = list(args)
        self.body = body
        self.out = out
        self.ret = ret
        self.meta = meta or {}
        self.func = None         # ir.Func JSON after build
        self.error = None        # compile diagnostics if the harness does not compile
        self.error_locs = []

    def argname(self, i):
        return "a%d" % i

    def role_index(self, role):
        for i, (_, r) in enumerate(self.args):
            if r == role:
                return i
        raise KeyError(role)

    def atom(self, role):
        return ('arg', self.role_index(role))

    @property
    def out_index(self):
        return len(self.args)

    def code(self):
        params = ["%s a%d" % (ct, i) for i, (ct, _) in enumerate(self.args)]
        if self.out:
            params.append("%s * out" % self.out[0])
        # role names usable in the body: the generator substitutes {role} -> aN itself
        return 'extern "C" %s H_%s(%s)\n{\n%s\n}\n' % (self.ret or "void", self.name, ", ".join(params), self.body)


def build(harnesses, tag, extra=(), ndebug=True, per_tu=12, opt="-O2", includes=INCLUDES, callees=False, dump_all=False):
    """Compile harnesses to IR (sharded, parallel) and attach ir JSON to each.
    A harness whose TU does not compile is recompiled alone; if it still fails
    its .error holds the diagnostics (a fact for the rule, not a tool failure)."""
    d = os.path.join(common.scratch(), "ir_" + tag)
    os.makedirs(d, exist_ok=True)
    common.mirror()
    shards = [harnesses[i:i + per_tu] for i in range(0, len(harnesses), per_tu)]

    def compile_set(idx, hs):
        src = os.path.join(d, "tu_%s.cc" % idx)
        ll = os.path.join(d, "tu_%s.ll" % idx)
        with open(src, "w") as fh:
            fh.write(includes)
            for h in hs:
                fh.write(h.code())
        ok, err, cmd = ir.clang_ir(src, ll, extra=tuple(extra) + tuple(GLOBAL_EXTRA), ndebug=ndebug, opt=opt)
        if not ok:
            return False, err, None
        j = ir.irdump(ll, prefixes=("H_",), callees=callees, all_=dump_all)
        os.unlink(ll)
        os.unlink(src)
        return True, err, j

    def do(ix):
        i, hs = ix
        ok, err, j = compile_set(str(i), hs)
        if ok:
            for h in hs:
                f = j["functions"].get("H_" + h.name)
                if f is None:
                    raise AnalysisBroken("harness H_%s vanished from IR" % h.name)
                h.func = f
                h.module = j
            return
        for k, h in enumerate(hs):
            ok1, err1, j1 = compile_set("%d_%d" % (i, k), [h])
            if ok1:
                h.func = j1["functions"]["H_" + h.name]
                h.module = j1
            else:
                # an error in the harness unit's own preamble (the declarations this engine adds, e.g. the undefined explicit
                # specialisations that keep numeric helpers opaque) is a failure of the engine, not a fact about the library
                npre = includes.count("\n")
                import re as _re
                first = next((ln for ln in err1.split("\n") if ": error:" in ln), "")
                m_ = _re.match(r"(.*tu_[\w]+\.cc):(\d+):\d+: error:", first)
                if m_ and int(m_.group(2)) <= npre:
                    raise AnalysisBroken("the analysis harness preamble does not compile against this tree (%s): the engine's own declarations need adjusting" % first.split(": error:")[1].strip()[:160])
                h.error = err1
                locs = []
                for ln in err1.split("\n"):
                    if ": error:" in ln and "covfie/" in ln:
                        locs.append((common.repo_rel(ln.split(": error:")[0].rsplit(":", 1)[0]), ln.split(": error:")[1].strip()))
                h.error_locs = locs

    common.pmap(do, list(enumerate(shards)))
    return harnesses


def first_error(h):
    if h.error_locs:
        loc, msg = h.error_locs[0]
        return loc, msg
    lines = [l for l in (h.error or "").split("\n") if "error" in l]
    return "?", (lines[0] if lines else (h.error or "")[-200:])
