"""Shared infrastructure for the covfie static checks.

Nothing here executes library code: the helpers compile (syntax-only or to
LLVM IR), run the fact extractors, and read / write JSON.
"""
import atexit
import concurrent.futures as cf
import hashlib
import json
import os
import re
import shutil
import subprocess
import sys
import tempfile
import time

VERIF = os.path.dirname(os.path.dirname(os.path.abspath(__file__)))
REPO = os.environ.get("VERIF_REPO", "/repo")
LIB = os.path.join(REPO, "lib")
CORE_INC = os.path.join(LIB, "core")
CPU_INC = os.path.join(LIB, "cpu")
CUDA_INC = os.path.join(LIB, "cuda")
VERIF_INC = os.path.join(VERIF, "engine", "include")
BUILD = os.path.join(VERIF, "build")
EVIDENCE = os.environ.get("VERIF_EVIDENCE") or (os.path.join(VERIF, "evidence") if REPO == "/repo" else "/tmp/covfie-verif-alt-evidence")
REPLAY = os.path.join(EVIDENCE, "replay")
KNOWN = os.path.join(VERIF, "known_findings.json")
JOBS = int(os.environ.get("VERIF_JOBS", str(os.cpu_count() or 4)))
GUARD = "COVFIE_VERIF"

EXIT_OK, EXIT_VIOLATION, EXIT_BROKEN = 0, 1, 2


class AnalysisBroken(Exception):
    """The analysis could not be carried out (exit 2): tool failure, vanished
    anchor, rule matched fewer instances than its floor, unknown idiom."""


_scratch = None


def scratch():
    global _scratch
    if _scratch is None:
        _scratch = tempfile.mkdtemp(prefix="covfie-verif-")
        atexit.register(shutil.rmtree, _scratch, True)
    return _scratch


def seed():
    try:
        return int(os.environ.get("VERIF_SEED", "0"))
    except ValueError:
        return 0


def run(cmd, **kw):
    kw.setdefault("stdout", subprocess.PIPE)
    kw.setdefault("stderr", subprocess.PIPE)
    kw.setdefault("text", True)
    return subprocess.run(cmd, **kw)


def pmap(fn, items, jobs=None):
    items = list(items)
    if not items:
        return []
    with cf.ThreadPoolExecutor(max_workers=jobs or JOBS) as ex:
        return list(ex.map(fn, items))


def repo_rel(path):
    """Rewrite a mirror or absolute path to a /repo-relative one for reports."""
    if path is None:
        return None
    m = re.search(r"(lib/(?:core|cpu|cuda)/covfie/.*)$", path)
    if m:
        return m.group(1)
    return path


def sha(text):
    return hashlib.sha256(text.encode()).hexdigest()[:12]


# --------------------------------------------------------------------------
# the mirror (DESIGN 2.1)
# --------------------------------------------------------------------------
_mirror = None


def mirror():
    """Copy /repo/lib to scratch and let clang insert the `typename` keywords
    that clang 14 (no P0634) needs.  Aborts unless the mirror differs from the
    tree only by inserted `typename ` tokens.  Returns the mirror's lib dir."""
    global _mirror
    if _mirror is not None:
        return _mirror
    dst = os.path.join(scratch(), "mirror", "lib")
    shutil.copytree(LIB, dst)
    probe = os.path.join(scratch(), "mirror", "all.cc")
    hdrs = []
    for root, _, files in os.walk(os.path.join(dst, "core")):
        for f in sorted(files):
            if f.endswith(".hpp"):
                hdrs.append(os.path.relpath(os.path.join(root, f), os.path.join(dst, "core")))
    with open(probe, "w") as fh:
        for h in sorted(hdrs):
            fh.write('#include <%s>\n' % h)
    # fix-its are applied iteratively: one pass may uncover further ones
    for _ in range(4):
        r = run(["clang++", "-std=c++20", "-fsyntax-only", "-I" + os.path.join(dst, "core"),
                 "-Xclang", "-fixit", "-Wno-everything", probe])
        if "fix applied" not in (r.stderr or "") and "FIX-IT applied" not in (r.stderr or ""):
            break
    # verify the only differences are inserted `typename `
    changed = []
    for root, _, files in os.walk(dst):
        for f in files:
            p = os.path.join(root, f)
            q = os.path.join(LIB, os.path.relpath(p, dst))
            if not os.path.exists(q):
                continue
            with open(p, errors="replace") as a, open(q, errors="replace") as b:
                la, lb = a.read().split("\n"), b.read().split("\n")
            if len(la) != len(lb):
                raise AnalysisBroken("mirror changed line count of %s" % q)
            for i, (x, y) in enumerate(zip(la, lb)):
                if x != y:
                    if x.replace("typename ", "") != y.replace("typename ", ""):
                        raise AnalysisBroken("mirror normalisation changed %s:%d beyond `typename`" % (q, i + 1))
                    changed.append("%s:%d" % (repo_rel(q), i + 1))
    _mirror = dst
    mirror.changed = changed
    return dst


mirror.changed = []


# --------------------------------------------------------------------------
# E1: witness compiler
# --------------------------------------------------------------------------
GXX_FLAGS = ["-std=c++20", "-fsyntax-only", "-fmax-errors=0", "-ftemplate-backtrace-limit=0",
             "-fno-diagnostics-show-caret", "-fdiagnostics-color=never", "-w",
             "-I" + CORE_INC, "-I" + CPU_INC, "-I" + VERIF_INC]


def gxx_syntax(path, extra=()):
    """Compile one TU with g++ -fsyntax-only; return (ok, stderr)."""
    r = run(["g++"] + GXX_FLAGS + list(extra) + [path])
    return r.returncode == 0, r.stderr


_DIAG = re.compile(r"^(?P<file>[^:\s][^:]*):(?P<line>\d+):(?:\d+:)?\s*(?P<kind>error|fatal error|note|warning|required from|  required from|required by|in 'constexpr'|  in )?")


def attribute_errors(stderr, genfile):
    """Split g++ text diagnostics into error blocks and return
    [(set_of_genfile_lines, first_error_message, first_library_location)]."""
    blocks = []
    refs = set()
    lib_loc = None
    base = os.path.basename(genfile)
    for ln in stderr.split("\n"):
        if re.match(r"^[^:\s][^:]*: In ", ln) or ln.startswith("In file included from"):
            # a new diagnostic group begins
            if not blocks or blocks[-1]["closed"]:
                refs = set()
                lib_loc = None
        m = re.match(r"^([^:\s][^:]*):(\d+):(?:(\d+):)?\s*(.*)$", ln)
        if not m:
            continue
        f, line, _, rest = m.groups()
        if os.path.basename(f) == base:
            refs.add(int(line))
        if rest.startswith("error:") or rest.startswith("fatal error:"):
            if os.path.basename(f) != base and lib_loc is None:
                lib_loc = "%s:%s" % (repo_rel(f), line)
            blocks.append({"refs": set(refs), "msg": rest, "loc": lib_loc or "%s:%s" % (repo_rel(f), line), "closed": True})
            refs = set()
            lib_loc = None
        elif blocks and os.path.basename(f) == base and (rest.startswith("note:") or "required from" in rest):
            # trailing context of the previous error ("required from here" is
            # printed before the error by g++, notes after)
            if rest.startswith("note:"):
                blocks[-1]["refs"].add(int(line))
                refs.discard(int(line))
    return blocks


class Witness:
    """One generated program fragment with an expectation."""

    def __init__(self, wid, code, expect="compile", expect_msg=None, preamble="", meta=None):
        self.wid = wid
        self.code = code
        self.expect = expect  # "compile" | "reject"
        self.expect_msg = expect_msg
        self.preamble = preamble
        self.meta = meta or {}
        self.ok = None
        self.detail = ""


def _wrap_single(w, includes):
    return includes + "\n" + w.preamble + "\n" + w.code + "\n"


def compile_witnesses(ws, includes, extra=(), tag="w", batch=24):
    """Decide each witness by g++ -fsyntax-only.  must-compile witnesses are
    batched; a failing batch is re-decided witness by witness (so attribution
    never depends on parsing diagnostics).  must-reject witnesses are always
    compiled alone and must fail with the expected message."""
    d = os.path.join(scratch(), tag)
    os.makedirs(d, exist_ok=True)
    good = [w for w in ws if w.expect == "compile"]
    bad = [w for w in ws if w.expect == "reject"]

    def single(w):
        p = os.path.join(d, "s_%s.cc" % sha(w.wid))
        with open(p, "w") as fh:
            fh.write(_wrap_single(w, includes))
        ok, err = gxx_syntax(p, extra)
        os.unlink(p)
        return ok, err

    def do_batch(idx_chunk):
        idx, chunk = idx_chunk
        p = os.path.join(d, "b_%d.cc" % idx)
        with open(p, "w") as fh:
            fh.write(includes + "\n")
            for w in chunk:
                fh.write(w.preamble + "\n" + w.code + "\n")
        ok, err = gxx_syntax(p, extra)
        os.unlink(p)
        return ok

    chunks = [good[i:i + batch] for i in range(0, len(good), batch)]
    res = pmap(do_batch, list(enumerate(chunks)))
    retry = []
    for ok, chunk in zip(res, chunks):
        if ok:
            for w in chunk:
                w.ok = True
        else:
            retry.extend(chunk)

    def decide_good(w):
        ok, err = single(w)
        w.ok = ok
        if not ok:
            blocks = attribute_errors(err, "s_%s.cc" % sha(w.wid))
            w.detail = "; ".join(sorted({"%s %s" % (b["loc"], b["msg"][:160]) for b in blocks})[:3]) or err[-400:]
            w.locs = sorted({b["loc"] for b in blocks})
        return w

    pmap(decide_good, retry)

    def decide_bad(w):
        ok, err = single(w)
        if ok:
            w.ok = False
            w.detail = "ill-kinded program was accepted"
        elif w.expect_msg and w.expect_msg not in err:
            w.ok = False
            w.detail = "rejected, but not by the stated constraint (%r not in diagnostics): %s" % (
                w.expect_msg, " | ".join(l for l in err.split("\n") if "error" in l)[:300])
        else:
            w.ok = True
        return w

    pmap(decide_bad, bad)
    return ws


# --------------------------------------------------------------------------
# known findings, evidence, reporting
# --------------------------------------------------------------------------
def load_known():
    if not os.path.exists(KNOWN):
        return []
    with open(KNOWN) as fh:
        return json.load(fh).get("findings", [])


class Report:
    """Collects obligations, violations and coverage for one property run."""

    def __init__(self, pid, tier, level):
        self.pid = pid
        self.tier = tier
        self.level = level
        self.t0 = time.time()
        self.violations = []      # dict(rule, instance, where, what)
        self.known_hits = []
        self.obligations = 0
        self.discharged = 0
        self.samples = []
        self.rules = {}           # rule id -> dict(instances=, floor=, text=)
        self.notes = []
        self.extra = {}
        self.assumptions = []
        self.distinct = set()
        self.pending = []         # "cannot decide" reasons met while violations were still being collected

    def undecided(self, why):
        """a construct outside what a rule can decide: becomes exit 2 at the end unless definite violations were found"""
        self.pending.append(why)

    def rule(self, rid, text, floor=1):
        self.rules.setdefault(rid, {"text": text, "floor": floor, "instances": 0, "violations": 0})

    def ok(self, rid, instance, sample=None):
        self.obligations += 1
        self.discharged += 1
        self.rules[rid]["instances"] += 1
        self.distinct.add((rid, str(instance)))
        if sample is not None and len(self.samples) < 12:
            self.samples.append(sample)

    def fail(self, rid, instance, where, what, data=None):
        self.obligations += 1
        self.rules[rid]["instances"] += 1
        self.rules[rid]["violations"] += 1
        self.distinct.add((rid, str(instance)))
        self.violations.append({"rule": rid, "instance": str(instance), "where": where, "what": what, "data": data})

    def finish(self, explanation, checker_cmd, trusted_base, exhaustive=False):
        known = [k for k in load_known() if k.get("property") == self.pid and k.get("status") == "open"]
        fresh = []
        for v in self.violations:
            hit = None
            for k in known:
                if k.get("rule") == v["rule"] and re.fullmatch(k.get("instance_re", re.escape(k.get("instance", ""))), v["instance"]):
                    hit = k
                    break
            if hit:
                self.known_hits.append((hit, v))
            else:
                fresh.append(v)
        if self.pending and not fresh:
            raise AnalysisBroken(self.pending[0])
        broken = [(rid, r) for rid, r in self.rules.items() if r["instances"] < r["floor"]]
        os.makedirs(REPLAY, exist_ok=True)
        # stale replay files of this property are removed
        for f in os.listdir(REPLAY):
            if f.startswith(self.pid + "_"):
                os.unlink(os.path.join(REPLAY, f))
        printed = set()
        for hit, v in self.known_hits:
            key = hit.get("id", hit.get("instance"))
            if key in printed:
                continue
            printed.add(key)
            print("KNOWN-FINDING: property=%s %s [%s %s at %s]" % (self.pid, hit.get("what", v["what"]), v["rule"], v["instance"], v["where"]))
        for i, v in enumerate(fresh):
            p = os.path.join(REPLAY, "%s_%03d.json" % (self.pid, i))
            with open(p, "w") as fh:
                json.dump({"property": self.pid, **v, "replay": "bin/vcheck %s --tier %s" % (self.pid, self.tier)}, fh, indent=1, default=str)
            print("  %s [%s] %s: %s" % (v["where"], v["rule"], v["instance"], v["what"]))
            print("VIOLATION property=%s replay=%s" % (self.pid, p))
        wall = time.time() - self.t0
        cov = {
            "explanation": explanation,
            "obligations": self.obligations,
            "discharged": self.discharged,
            "checker_cmd": checker_cmd,
            "trusted_base": trusted_base,
            "evaluations": max(self.obligations, 1),
            "distinct_nontrivial": len(self.distinct),
            "rule": "one obligation per (rule, instance); distinct = distinct (rule id, instance) pairs decided this run",
            "samples": self.samples or ["(none)"],
            "exhaustive": bool(exhaustive),
            "rules": {rid: {"text": r["text"], "instances": r["instances"], "floor": r["floor"], "violations": r["violations"]} for rid, r in self.rules.items()},
            "known_findings_matched": [h.get("id") for h, _ in self.known_hits],
            "mirror_normalised_lines": getattr(mirror, "changed", []),
        }
        cov.update(self.extra)
        level = self.level
        if level == "proof" and self.discharged != self.obligations:
            # a proof-level evidence file must have discharged == obligations
            level = "other"
        ev = {
            "property_id": self.pid,
            "tier": self.tier,
            "seed": seed(),
            "level": level,
            "coverage": cov,
            "assumptions": self.assumptions,
            "wall_s": round(wall, 2),
            "violations": len(fresh),
        }
        os.makedirs(EVIDENCE, exist_ok=True)
        with open(os.path.join(EVIDENCE, self.pid + ".json"), "w") as fh:
            json.dump(ev, fh, indent=1, default=str)
        for rid, r in self.rules.items():
            print("  rule %-10s instances=%-5d floor=%-4d violations=%d  %s" % (rid, r["instances"], r["floor"], r["violations"], r["text"][:90]))
        print("%s tier=%s obligations=%d discharged=%d violations=%d known=%d wall=%.1fs" % (
            self.pid, self.tier, self.obligations, self.discharged, len(fresh), len(self.known_hits), wall))
        if broken and (fresh or self.known_hits):
            # instances are missing because earlier rules already failed for them: the run does not pass anyway
            broken = []
        if broken:
            for rid, r in broken:
                print("ANALYSIS-BROKEN property=%s rule %s matched %d instances, floor %d" % (self.pid, rid, r["instances"], r["floor"]))
            return EXIT_BROKEN
        return EXIT_VIOLATION if fresh else EXIT_OK
