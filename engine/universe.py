"""The layer table and the stack grammar (DESIGN 2.2).

    real-wrapper* interpolator? int-wrapper* storage-order? primitive

Every Stack knows its C++ type, its kind (input dims/scalar, output dims/scalar,
reference or value output) and the list of its layers from the outside in.
The kind rules below are *my* oracle for "well-kinded"; each restriction
carries its reason.
"""
import itertools
import random

INT_S = ["std::size_t", "unsigned", "int"]
FLT_S = ["float", "double"]


def vd(s, n):
    return "covfie::vector::vector_d<%s, %d>" % (s, n)


class Stack:
    def __init__(self, cxx, layers, N, S, M, T, ref, scalar_in=False):
        self.cxx = cxx
        self.layers = layers       # outermost first, e.g. ['clamp', 'strided', 'array']
        self.N, self.S, self.M, self.T, self.ref = N, S, M, T, ref
        self.scalar_in = scalar_in

    @property
    def depth(self):
        return len(self.layers)

    @property
    def level(self):
        return "real" if self.S in FLT_S else "int"

    def key(self):
        return self.cxx

    def view_bytes_upper(self):
        """generous upper bound of sizeof(non_owning_data_t): field_view rejects views above 256 bytes (a stated
        constraint), so stacks that may exceed it are not part of the well-kinded universe"""
        szS = 8 if ("size_t" in self.S or self.S == "double") else 4
        szT = 8 if self.T == "double" else 4
        total = 0
        for l in self.layers:
            if l == "affine":
                b = self.N * (self.N + 1) * 8
            elif l == "clamp":
                b = 2 * self.N * 8
            elif l == "backup":
                b = 2 * self.N * 8 + self.M * 8
            elif l in ("strided", "morton_bmi2", "morton_portable", "hilbert"):
                b = 8 * self.N
            elif l == "array":
                b = 16
            elif l == "constant":
                b = self.M * 8
            else:
                b = 8
            total += b + 8
        return total

    def __repr__(self):
        return "<" + ">".join(self.layers) + " %s^%d->%s^%d%s>" % (self.S, self.N, self.T, self.M, "&" if self.ref else "")


# ---- primitives ---------------------------------------------------------
def p_array(T, M):
    return Stack("covfie::backend::array<%s>" % vd(T, M), ["array"], 1, "std::size_t", M, T, True, scalar_in=True)


def p_constant(S, N, T, M):
    return Stack("covfie::backend::constant<%s, %s>" % (vd(S, N), vd(T, M)), ["constant"], N, S, M, T, False)


def p_identity(S, N):
    return Stack("covfie::backend::identity<%s>" % vd(S, N), ["identity"], N, S, N, S, False)


# ---- storage orders (need an array-like backend: scalar flat index in) ----
def l_strided(b, I, N):
    assert b.scalar_in
    return Stack("covfie::backend::strided<%s, %s>" % (vd(I, N), b.cxx), ["strided"] + b.layers, N, I, b.M, b.T, b.ref)


def l_morton(b, I, N, bmi2):
    assert b.scalar_in
    return Stack("covfie::backend::morton<%s, %s, %s>" % (vd(I, N), b.cxx, "true" if bmi2 else "false"),
                 ["morton_bmi2" if bmi2 else "morton_portable"] + b.layers, N, I, b.M, b.T, b.ref)


def l_hilbert(b, I):
    assert b.scalar_in
    return Stack("covfie::backend::hilbert<%s, %s>" % (vd(I, 2), b.cxx), ["hilbert"] + b.layers, 2, I, b.M, b.T, b.ref)


# ---- wrappers usable at either level (need a vector coordinate) ----------
def l_clamp(b):
    return Stack("covfie::backend::clamp<%s>" % b.cxx, ["clamp"] + b.layers, b.N, b.S, b.M, b.T, b.ref)


def l_backup(b):
    return Stack("covfie::backend::backup<%s>" % b.cxx, ["backup"] + b.layers, b.N, b.S, b.M, b.T, False)


def l_shuffle(b, perm):
    return Stack("covfie::backend::shuffle<%s, std::index_sequence<%s>>" % (b.cxx, ", ".join(map(str, perm))),
                 ["shuffle"] + b.layers, b.N, b.S, b.M, b.T, b.ref)


def l_cast(b, T2):
    return Stack("covfie::backend::covariant_cast<%s, %s>" % (T2, b.cxx), ["covariant_cast"] + b.layers, b.N, b.S, b.M, T2, False)


def l_deref(b):
    return Stack("covfie::backend::dereference<%s>" % b.cxx, ["dereference"] + b.layers, b.N, b.S, b.M, b.T, False)


# ---- interpolators (integer-level backend below, real coordinate above) --
def l_linear(b, F):
    return Stack("covfie::backend::linear<%s, %s>" % (b.cxx, vd(F, b.N)), ["linear"] + b.layers, b.N, F, b.M, b.T, False)


def l_nearest(b, F):
    return Stack("covfie::backend::nearest_neighbour<%s, %s>" % (b.cxx, vd(F, b.N)), ["nearest_neighbour"] + b.layers, b.N, F, b.M, b.T, b.ref)


# ---- real-level only ------------------------------------------------------
def l_affine(b):
    return Stack("covfie::backend::affine<%s>" % b.cxx, ["affine"] + b.layers, b.N, b.S, b.M, b.T, b.ref)


def rot(n):
    return tuple(list(range(1, n)) + [0]) if n > 1 else (0,)


def wrappers(b, rng=None, level=None):
    """All generic wrappers applicable to b (vector coordinate required: clamp,
    backup and shuffle index the coordinate, which a scalar index does not offer)."""
    out = []
    if not b.scalar_in:
        out += [l_clamp(b), l_backup(b), l_shuffle(b, rot(b.N))]
        out += [l_cast(b, "double" if b.T != "double" else "float"), l_deref(b)]
    return out


def int_bases(nm_pairs, coord_types=("std::size_t",), stor=("float",)):
    """integer-level stacks of the form storage-order? primitive."""
    out = []
    for (N, M) in nm_pairs:
        for I in coord_types:
            for T in stor:
                a = p_array(T, M)
                out.append(l_strided(a, I, N))
                out.append(l_morton(a, I, N, True))
                out.append(l_morton(a, I, N, False))
                if N == 2:
                    out.append(l_hilbert(a, I))
                out.append(p_constant(I, N, T, M))
            out.append(p_identity(I, N))
    return out


def real_bases(nm_pairs, F=("float",), stor=("float",)):
    out = []
    for (N, M) in nm_pairs:
        for f in F:
            for T in stor:
                out.append(p_constant(f, N, T, M))
            out.append(p_identity(f, N))
    return out


def is_float(T):
    return T in FLT_S


def grow(stacks, maxdepth, rng, cap=None):
    """Close a set of stacks under the grammar up to maxdepth."""
    seen = {s.key(): s for s in stacks}
    frontier = list(stacks)
    while frontier:
        nxt = []
        for b in frontier:
            if b.depth >= maxdepth:
                continue
            cands = []
            if b.level == "int":
                if not any(l in ("linear", "nearest_neighbour") for l in b.layers):
                    if all(l not in ("affine",) for l in b.layers):
                        cands += wrappers(b)
                        if not b.scalar_in:
                            if is_float(b.T):
                                cands += [l_linear(b, "float"), l_linear(b, "double")]
                            cands += [l_nearest(b, "float"), l_nearest(b, "double")]
            else:
                cands += wrappers(b)
                cands.append(l_affine(b))
            for c in cands:
                if c.key() not in seen:
                    seen[c.key()] = c
                    nxt.append(c)
        if cap and len(seen) > cap:
            break
        frontier = nxt
    return list(seen.values())


def adjacency(s):
    return list(zip(s.layers, s.layers[1:]))


def pairwise_cover(stacks, rng):
    """Greedy subset covering every (outer, inner) layer adjacency and every layer at top/bottom."""
    need = set()
    for s in stacks:
        need |= set(adjacency(s))
        need.add(("TOP", s.layers[0]))
    chosen = []
    pool = sorted(stacks, key=lambda s: (s.depth, s.cxx))
    rng.shuffle(pool)
    pool.sort(key=lambda s: -len(set(adjacency(s))))
    for s in pool:
        gain = (set(adjacency(s)) | {("TOP", s.layers[0])}) & need
        if gain:
            chosen.append(s)
            need -= gain
        if not need:
            break
    return chosen
